---------------------------- MODULE QueueIdsTrace ----------------------------
(* Validates traces recorded by harness/drivers/queueids (real consensus keeper, E1) against QueueIds.tla.  *)
(* The spec variables are bound to what was OBSERVED after every step (contents of all queues of all chains, *)
(* the real id counter, the id the call returned); the monitors are the invariants of QueueIds.tla evaluated *)
(* on the observed state; Conf compares with the spec's own action (drift only).                             *)
(* Ids are recorded relative to the chain's counter at the start of the history (messages queued by the      *)
(* environment's set-up have ids <= 0).                                                                      *)
EXTENDS QueueIds, Json
Trace == ndJsonDeserialize("trace.ndjson")
VARIABLE l
tvars == <<vars, l>>

Report(name, cond) == cond \/ PrintT(<<"MONFAIL", name, l>>)
Conf(name, cond)   == cond \/ PrintT(<<"CONFFAIL", name, l>>)
IsEvent(a) == l <= Len(Trace) /\ Trace[l].act = a /\ l' = l + 1
SetOf(s) == {s[i] : i \in DOMAIN s}
ObsLive(o) == {[c |-> m.c, q |-> m.q, id |-> m.id, ver |-> m.ver, est |-> m.est] : m \in SetOf(o.live)}
\* the same message must not be listed twice (two queues returning one id shows up as two records with one id)
NoDup(o) == Cardinality(ObsLive(o)) = Len(o.live)

TrInit == IsEvent("Init") /\ LET e == Trace[l] IN
  /\ live' = ObsLive(e.obs) /\ counter' = e.obs.counter /\ issued' = <<>>
  /\ last' = [NoLast EXCEPT !.before = Ids(ObsLive(e.obs)), !.cbefore = e.obs.counter]
  /\ Report("Setup.CounterIsBase", e.obs.counter = 0)
  /\ Report("C05.IdsUnique", IdsUnique' /\ NoDup(e.obs))
  /\ Report("C05.IdsIncrease", \A m \in live' : m.id <= counter')

Bind(e, a) ==
  /\ live' = ObsLive(e.obs) /\ counter' = e.obs.counter
  /\ issued' = IF a = "Put" /\ e.res = "ok" THEN Append(issued, e.id) ELSE issued
  /\ last' = Did(a, e.args.c, e.args.q, IF a = "Put" THEN e.id ELSE e.args.id, e.res)

Monitors(e) ==
  /\ Report("C05.IdsUnique", IdsUnique' /\ NoDup(e.obs))
  /\ Report("C05.IdsIncrease", IdsIncrease')
  /\ Report("C05.ReplaceKeepsId", ReplaceKeepsId')
  /\ Report("C05.RemoveExact", RemoveExact')
  /\ Report("Setup.NoPanic", e.res \in {"ok", "notfound", "already"})

TrPut == IsEvent("Put") /\ LET e == Trace[l] IN
  /\ Bind(e, "Put")
  /\ Monitors(e)
  /\ Report("C05.PutAccepted", e.res = "ok")
  /\ Report("C05.PutQueued", e.res = "ok" => At(live', e.args.c, e.args.q, e.id) # {})
  /\ Conf("Put", Put(e.args.c, e.args.q))

TrReplace == IsEvent("Replace") /\ LET e == Trace[l] IN
  /\ Bind(e, "Replace")
  /\ Monitors(e)
  /\ Report("C05.ReplaceReturnsId", e.res = "ok" => e.id = e.args.id)
  /\ Report("C05.ReplaceResult", (e.res = "ok") = (At(live, e.args.c, e.args.q, e.args.id) # {}))
  /\ Conf("Replace", Replace(e.args.c, e.args.q, e.args.id))

TrRemove == IsEvent("Remove") /\ LET e == Trace[l] IN
  /\ Bind(e, "Remove")
  /\ Monitors(e)
  /\ Report("C05.RemoveResult", (e.res = "ok") = (At(live, e.args.c, e.args.q, e.args.id) # {}))
  /\ Conf("Remove", Remove(e.args.c, e.args.q, e.args.id))

TrElect == IsEvent("Elect") /\ LET e == Trace[l] IN
  /\ Bind(e, "Elect")
  /\ Monitors(e)
  /\ Conf("Elect", Elect(e.args.c, e.args.id))

TraceInit == Init /\ l = 1
TraceNext == TrInit \/ TrPut \/ TrReplace \/ TrRemove \/ TrElect
TraceAccepted == TLCGet("stats").diameter - 1 = Len(Trace)
=============================================================================
