CONSTANTS
  Senders = {1, 2, 3}
  Nonces = {1, 2, 3}
  Classes = {0, 1, 2}
  MaxOps = 7
  MaxPending = 4
  EmitAt = 0
INIT GInit
NEXT GNextC
VIEW GView
CONSTRAINT GConstr
CHECK_DEADLOCK FALSE
