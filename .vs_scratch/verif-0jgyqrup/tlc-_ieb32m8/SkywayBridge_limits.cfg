CONSTANTS
  Users = {1, 2}
  Vals = {1}
  Tokens = {1}
  TokChain <- Seq1
  TokContract <- Seq1
  TokDenom <- Seq1
  Amounts = {1, 2, 3}
  InitBal = 5
  BatchEvery = 50
  TimeoutBlocks = 300
  Jumps = {1, 57599}
  Period = 57600
  TaxRates <- RateHalf
  Limits = {3}
  EstValues = {1}
  MaxTx = 4
  MaxBatch = 1
  MaxClaims = 1
  MaxHeight = 115201
INIT Init
NEXT NextLimits
CONSTRAINT ConstrLimits
VIEW View
INVARIANTS TypeOK EscrowEq ExactlyOnePlace WindowRespected
PROPERTIES FailureIsNoOp
CHECK_DEADLOCK FALSE
