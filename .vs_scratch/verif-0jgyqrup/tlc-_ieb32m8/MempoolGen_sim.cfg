CONSTANTS
  Senders = {1, 2, 3}
  Nonces = {1, 2, 3}
  Classes = {0, 1, 2, 3, 4}
  MaxOps = 14
  MaxPending = 9
  EmitAt = 14
INIT GInit
NEXT GNext
CONSTRAINT GConstr
INVARIANT Emit
CHECK_DEADLOCK FALSE
