CONSTANTS
  Vals = {1, 2, 3, 4, 5}
  Share <- Shares5
  EvValues = {1, 2, 3}
  EstValues = {1, 4, 9, 30}
  MaxMsgs = 3
  PruneAge = 300
  PruneEvery = 50
  Family = "all"
  EmitAt = 18
  MaxOps = 18
INIT GInit
NEXT GNext
CONSTRAINT GConstr
INVARIANT Emit
CHECK_DEADLOCK FALSE
