---- MODULE Valset_mc_TTrace_1790978890 ----
EXTENDS Sequences, TLCExt, Toolbox, Valset_mc, Naturals, TLC

_expression ==
    LET Valset_mc_TEExpression == INSTANCE Valset_mc_TEExpression
    IN Valset_mc_TEExpression!expression
----

_trace ==
    LET Valset_mc_TETrace == INSTANCE Valset_mc_TETrace
    IN Valset_mc_TETrace!trace
----

_inv ==
    ~(
        TLCGet("level") = Len(_TETrace)
        /\
        snaps = (<<[accts |-> <<{1, 2}, {1, 2}, {1, 2}>>, chains |-> <<>>, share |-> <<1, 2, 3>>, total |-> 6, vals |-> {1, 2, 3}, at |-> 0], [accts |-> (2 :> {1, 2} @@ 3 :> {1, 2}), chains |-> <<>>, share |-> (2 :> 2 @@ 3 :> 3), total |-> 5, vals |-> {2, 3}, at |-> 0]>>)
        /\
        last = ([act |-> "Build", ok |-> TRUE])
        /\
        accts = (<<{1, 2}, {1, 2}, {1, 2}>>)
        /\
        prev = ({})
        /\
        h = (1)
        /\
        active = ({})
        /\
        lastId = (2)
        /\
        jhist = (<<<<>>, <<>>, <<>>>>)
        /\
        minVer = (1)
        /\
        unbondAt = (<<0, 0, 0>>)
        /\
        stake = (<<1, 2, 3>>)
        /\
        jailed = (<<FALSE, FALSE, TRUE>>)
        /\
        sched = ([ver |-> 0, target |-> 0])
        /\
        now = (0)
        /\
        grace = (<<0, 0, 0>>)
        /\
        aliveUntil = (<<0, 0, 0>>)
        /\
        until = (<<0, 0, 0>>)
        /\
        deleg = (<<0, 0, 0>>)
        /\
        jailLog = (<<[at |-> -1, dur |-> 1], [at |-> -1, dur |-> 1], [at |-> -1, dur |-> 1]>>)
        /\
        queue = (<<[id |-> 0, pw |-> <<>>], [id |-> 0, pw |-> <<>>]>>)
        /\
        status = (<<"unbonding", "bonded", "bonded">>)
    )
----

_init ==
    /\ grace = _TETrace[1].grace
    /\ active = _TETrace[1].active
    /\ aliveUntil = _TETrace[1].aliveUntil
    /\ prev = _TETrace[1].prev
    /\ h = _TETrace[1].h
    /\ now = _TETrace[1].now
    /\ snaps = _TETrace[1].snaps
    /\ sched = _TETrace[1].sched
    /\ jhist = _TETrace[1].jhist
    /\ jailLog = _TETrace[1].jailLog
    /\ last = _TETrace[1].last
    /\ stake = _TETrace[1].stake
    /\ queue = _TETrace[1].queue
    /\ jailed = _TETrace[1].jailed
    /\ deleg = _TETrace[1].deleg
    /\ lastId = _TETrace[1].lastId
    /\ status = _TETrace[1].status
    /\ minVer = _TETrace[1].minVer
    /\ unbondAt = _TETrace[1].unbondAt
    /\ accts = _TETrace[1].accts
    /\ until = _TETrace[1].until
----

_next ==
    /\ \E i,j \in DOMAIN _TETrace:
        /\ \/ /\ j = i + 1
              /\ i = TLCGet("level")
        /\ grace  = _TETrace[i].grace
        /\ grace' = _TETrace[j].grace
        /\ active  = _TETrace[i].active
        /\ active' = _TETrace[j].active
        /\ aliveUntil  = _TETrace[i].aliveUntil
        /\ aliveUntil' = _TETrace[j].aliveUntil
        /\ prev  = _TETrace[i].prev
        /\ prev' = _TETrace[j].prev
        /\ h  = _TETrace[i].h
        /\ h' = _TETrace[j].h
        /\ now  = _TETrace[i].now
        /\ now' = _TETrace[j].now
        /\ snaps  = _TETrace[i].snaps
        /\ snaps' = _TETrace[j].snaps
        /\ sched  = _TETrace[i].sched
        /\ sched' = _TETrace[j].sched
        /\ jhist  = _TETrace[i].jhist
        /\ jhist' = _TETrace[j].jhist
        /\ jailLog  = _TETrace[i].jailLog
        /\ jailLog' = _TETrace[j].jailLog
        /\ last  = _TETrace[i].last
        /\ last' = _TETrace[j].last
        /\ stake  = _TETrace[i].stake
        /\ stake' = _TETrace[j].stake
        /\ queue  = _TETrace[i].queue
        /\ queue' = _TETrace[j].queue
        /\ jailed  = _TETrace[i].jailed
        /\ jailed' = _TETrace[j].jailed
        /\ deleg  = _TETrace[i].deleg
        /\ deleg' = _TETrace[j].deleg
        /\ lastId  = _TETrace[i].lastId
        /\ lastId' = _TETrace[j].lastId
        /\ status  = _TETrace[i].status
        /\ status' = _TETrace[j].status
        /\ minVer  = _TETrace[i].minVer
        /\ minVer' = _TETrace[j].minVer
        /\ unbondAt  = _TETrace[i].unbondAt
        /\ unbondAt' = _TETrace[j].unbondAt
        /\ accts  = _TETrace[i].accts
        /\ accts' = _TETrace[j].accts
        /\ until  = _TETrace[i].until
        /\ until' = _TETrace[j].until

\* Uncomment the ASSUME below to write the states of the error trace
\* to the given file in Json format. Note that you can pass any tuple
\* to `JsonSerialize`. For example, a sub-sequence of _TETrace.
    \* ASSUME
    \*     LET J == INSTANCE Json
    \*         IN J!JsonSerialize("Valset_mc_TTrace_1790978890.json", _TETrace)

=============================================================================

 Note that you can extract this module `Valset_mc_TEExpression`
  to a dedicated file to reuse `expression` (the module in the 
  dedicated `Valset_mc_TEExpression.tla` file takes precedence 
  over the module `Valset_mc_TEExpression` below).

---- MODULE Valset_mc_TEExpression ----
EXTENDS Sequences, TLCExt, Toolbox, Valset_mc, Naturals, TLC

expression == 
    [
        \* To hide variables of the `Valset_mc` spec from the error trace,
        \* remove the variables below.  The trace will be written in the order
        \* of the fields of this record.
        grace |-> grace
        ,active |-> active
        ,aliveUntil |-> aliveUntil
        ,prev |-> prev
        ,h |-> h
        ,now |-> now
        ,snaps |-> snaps
        ,sched |-> sched
        ,jhist |-> jhist
        ,jailLog |-> jailLog
        ,last |-> last
        ,stake |-> stake
        ,queue |-> queue
        ,jailed |-> jailed
        ,deleg |-> deleg
        ,lastId |-> lastId
        ,status |-> status
        ,minVer |-> minVer
        ,unbondAt |-> unbondAt
        ,accts |-> accts
        ,until |-> until
        
        \* Put additional constant-, state-, and action-level expressions here:
        \* ,_stateNumber |-> _TEPosition
        \* ,_graceUnchanged |-> grace = grace'
        
        \* Format the `grace` variable as Json value.
        \* ,_graceJson |->
        \*     LET J == INSTANCE Json
        \*     IN J!ToJson(grace)
        
        \* Lastly, you may build expressions over arbitrary sets of states by
        \* leveraging the _TETrace operator.  For example, this is how to
        \* count the number of times a spec variable changed up to the current
        \* state in the trace.
        \* ,_graceModCount |->
        \*     LET F[s \in DOMAIN _TETrace] ==
        \*         IF s = 1 THEN 0
        \*         ELSE IF _TETrace[s].grace # _TETrace[s-1].grace
        \*             THEN 1 + F[s-1] ELSE F[s-1]
        \*     IN F[_TEPosition - 1]
    ]

=============================================================================



Parsing and semantic processing can take forever if the trace below is long.
 In this case, it is advised to uncomment the module below to deserialize the
 trace from a generated binary file.

\*
\*---- MODULE Valset_mc_TETrace ----
\*EXTENDS IOUtils, Valset_mc, TLC
\*
\*trace == IODeserialize("Valset_mc_TTrace_1790978890.bin", TRUE)
\*
\*=============================================================================
\*

---- MODULE Valset_mc_TETrace ----
EXTENDS Valset_mc, TLC

trace == 
    <<
    ([snaps |-> <<[accts |-> <<{1, 2}, {1, 2}, {1, 2}>>, chains |-> <<>>, share |-> <<1, 2, 3>>, total |-> 6, vals |-> {1, 2, 3}, at |-> 0]>>,last |-> [act |-> "Init", ok |-> TRUE],accts |-> <<{1, 2}, {1, 2}, {1, 2}>>,prev |-> {},h |-> 1,active |-> {},lastId |-> 1,jhist |-> <<<<>>, <<>>, <<>>>>,minVer |-> 1,unbondAt |-> <<0, 0, 0>>,stake |-> <<1, 2, 3>>,jailed |-> <<FALSE, FALSE, FALSE>>,sched |-> [ver |-> 0, target |-> 0],now |-> 0,grace |-> <<0, 0, 0>>,aliveUntil |-> <<0, 0, 0>>,until |-> <<0, 0, 0>>,deleg |-> <<0, 0, 0>>,jailLog |-> <<[at |-> -1, dur |-> 1], [at |-> -1, dur |-> 1], [at |-> -1, dur |-> 1]>>,queue |-> <<[id |-> 0, pw |-> <<>>], [id |-> 0, pw |-> <<>>]>>,status |-> <<"unbonding", "bonded", "bonded">>]),
    ([snaps |-> <<[accts |-> <<{1, 2}, {1, 2}, {1, 2}>>, chains |-> <<>>, share |-> <<1, 2, 3>>, total |-> 6, vals |-> {1, 2, 3}, at |-> 0]>>,last |-> [act |-> "JailF", ok |-> TRUE],accts |-> <<{1, 2}, {1, 2}, {1, 2}>>,prev |-> {},h |-> 1,active |-> {},lastId |-> 1,jhist |-> <<<<>>, <<>>, <<>>>>,minVer |-> 1,unbondAt |-> <<0, 0, 0>>,stake |-> <<1, 2, 3>>,jailed |-> <<FALSE, FALSE, TRUE>>,sched |-> [ver |-> 0, target |-> 0],now |-> 0,grace |-> <<0, 0, 0>>,aliveUntil |-> <<0, 0, 0>>,until |-> <<0, 0, 0>>,deleg |-> <<0, 0, 0>>,jailLog |-> <<[at |-> -1, dur |-> 1], [at |-> -1, dur |-> 1], [at |-> -1, dur |-> 1]>>,queue |-> <<[id |-> 0, pw |-> <<>>], [id |-> 0, pw |-> <<>>]>>,status |-> <<"unbonding", "bonded", "bonded">>]),
    ([snaps |-> <<[accts |-> <<{1, 2}, {1, 2}, {1, 2}>>, chains |-> <<>>, share |-> <<1, 2, 3>>, total |-> 6, vals |-> {1, 2, 3}, at |-> 0], [accts |-> (2 :> {1, 2} @@ 3 :> {1, 2}), chains |-> <<>>, share |-> (2 :> 2 @@ 3 :> 3), total |-> 5, vals |-> {2, 3}, at |-> 0]>>,last |-> [act |-> "Build", ok |-> TRUE],accts |-> <<{1, 2}, {1, 2}, {1, 2}>>,prev |-> {},h |-> 1,active |-> {},lastId |-> 2,jhist |-> <<<<>>, <<>>, <<>>>>,minVer |-> 1,unbondAt |-> <<0, 0, 0>>,stake |-> <<1, 2, 3>>,jailed |-> <<FALSE, FALSE, TRUE>>,sched |-> [ver |-> 0, target |-> 0],now |-> 0,grace |-> <<0, 0, 0>>,aliveUntil |-> <<0, 0, 0>>,until |-> <<0, 0, 0>>,deleg |-> <<0, 0, 0>>,jailLog |-> <<[at |-> -1, dur |-> 1], [at |-> -1, dur |-> 1], [at |-> -1, dur |-> 1]>>,queue |-> <<[id |-> 0, pw |-> <<>>], [id |-> 0, pw |-> <<>>]>>,status |-> <<"unbonding", "bonded", "bonded">>])
    >>
----


=============================================================================

---- CONFIG Valset_mc_TTrace_1790978890 ----
CONSTANTS
    Vals = { 1 , 2 , 3 }
    Chains = { 1 , 2 }
    MaxVals = 2
    UnbondTime = 2
    MaxPower = 16
    WarmTime = 2
    TTL = 4
    Grace = 2
    Sweep = 2
    WarmUp = 3
    Sentences <- ModelSentences
    ResetMin = 3
    DefaultVer = 1
    StakeVecs <- Vecs3Q
    StakeSet = { 1 , 2 , 7 }
    Amounts = { 1 }
    DTs = { 1 }
    MaxSnaps = 3
    MaxStakeOps = 1
    MaxH = 2
    MaxJails = 0
    MaxLevel = 6
    StakeVals = { 1 }
    MaxOnChain = 2
    VersionsMC = { 1 }

INVARIANT
    _inv

CHECK_DEADLOCK
    \* CHECK_DEADLOCK off because of PROPERTY or INVARIANT above.
    FALSE

INIT
    _init

NEXT
    _next

CONSTANT
    _TETrace <- _trace

ALIAS
    _expression
=============================================================================
\* Generated on Fri Oct 02 22:08:12 UTC 2026