--------------------------- MODULE EvmAttest_mc ---------------------------
EXTENDS EvmAttest
CONSTANTS World,      \* prepared world the behaviours start from (0, 1, 2)
          EKinds,     \* kinds that may be enqueued
          KMax,       \* signatures per message / prefix lengths 0..KMax
          Corrs, Sts, Ns, Ts,
          MaxId, MaxTx, MaxLevel, MaxEvPerMsg
\* cfg files cannot hold tuples/functions
ShareFn == <<3, 1, 1, 1>>          \* total 6: {1,2} holds exactly 2/3, {2,3,4} is one short
InitMC == InitW(World)
Ofs == DOMAIN msgs \cup {key[1] : key \in DOMAIN txs}
EvidenceMC ==
  \E v \in Vals, m \in DOMAIN msgs :
     \/ Evidence(v, m, "err", m, 1, "none", "ok", 1) /\ "err" \in Ts
     \/ \E of \in Ofs, k \in 0..KMax, corr \in Corrs, st \in Sts, n \in Ns :
          /\ "tx" \in Ts
          /\ CanBuild(of, k, corr)
          /\ (of \in DOMAIN msgs /\ msgs[of].kind = "usc" => k = 1)
          /\ (corr # "none" => k = 1 /\ of = m)        \* one corrupted variant per message is enough for the design
          /\ Evidence(v, m, "tx", of, k, corr, st, n)
NextMC ==
  \/ \E kind \in EKinds : Enqueue(kind)
  \/ \E v \in Vals, m \in DOMAIN msgs : Len(msgs[m].sigs) < KMax /\ Sign(v, m)
  \/ EvidenceMC
  \/ EndBlock
Constr == /\ nextId <= MaxId + 1 /\ Cardinality(DOMAIN txs) <= MaxTx /\ TLCGet("level") <= MaxLevel
          /\ \A id \in DOMAIN msgs : Cardinality(DOMAIN msgs[id].ev) <= MaxEvPerMsg
\* a design without the processed-transaction set accepts the same transaction twice (sanity of the model)
=============================================================================
