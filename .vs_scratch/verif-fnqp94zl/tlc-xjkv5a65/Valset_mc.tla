----------------------------- MODULE Valset_mc -----------------------------
EXTENDS Valset
CONSTANTS StakeSet,     \* stakes a validator can start with
          Amounts,      \* delegation amounts
          DTs,          \* time steps
          MaxSnaps, MaxStakeOps, MaxH, MaxJails, MaxLevel, VersionsMC

ModelSentences == <<1, 2, 4>>
RealSentences == <<60, 300, 900, 3600, 86400>>
AllAccts == [v \in Vals |-> Chains]

\* ---- part (a): snapshots ---------------------------------------------------
InitSnap == \E stk \in [Vals -> StakeSet] :
              /\ \A a, b \in Vals : a < b => stk[a] >= stk[b] \/ a = 1     \* symmetry: validators 2..N sorted by stake, validator 1 free
              /\ InitWith(stk, AllAccts, {}, InitStatus(stk))
NextSnap ==
  \/ Build({})
  \/ \E id \in 1..(lastId + 1), c \in Chains : SetOnChain(id, c)
  \/ \E f \in BOOLEAN : Publish(f, {})
  \/ \E v \in Vals, S \in SUBSET Chains : S # accts[v] /\ Register(v, S)
  \/ \E c \in Chains : c \notin active /\ Activate(c)
  \/ \E v \in Vals, a \in Amounts : Delegate(v, a) \/ Undelegate(v, a)
  \/ \E v \in Vals : JailF(v) \/ Unjail(v)
  \/ \E dt \in DTs : StakingEB(dt)
StakeOps == SumOver(deleg, Vals)
ConstrSnap == /\ lastId <= MaxSnaps /\ StakeOps <= MaxStakeOps /\ now <= MaxH
              /\ \A id \in DOMAIN snaps : Len(snaps[id].chains) <= 2
              /\ TLCGet("level") <= MaxLevel
ViewSnap == <<stakingVars, snapVars, now>>

\* ---- part (b): keep-alive --------------------------------------------------
InitAlive == \E stk \in [Vals -> StakeSet] :
              /\ \A a, b \in Vals : a < b => stk[a] >= stk[b]
              /\ InitWith(stk, AllAccts, {}, InitStatus(stk))
NextAlive ==
  \/ \E dt \in DTs : Block(dt)
  \/ \E v \in Vals, ver \in VersionsMC : KeepAlive(v, ver)
  \/ \E v \in Vals : Jail(v) \/ Unjail(v)
  \/ \E ver \in VersionsMC, t \in {0, h + 2} : SetMinVersion(ver, t)
Jailings == SumOver([v \in Vals |-> Len(jhist[v])], Vals)
ConstrAlive == h <= MaxH /\ Jailings <= MaxJails /\ TLCGet("level") <= MaxLevel
ViewAlive == <<stakingVars, aliveVars, now, last>>
\* the block-skipping evaluation used for long runs agrees with block-by-block evaluation
FastIsNaive == \A n \in 0..7, dt \in DTs : FastRun(St, n, dt) = NaiveRun(St, n, dt)
=============================================================================
