import sys,os,json,collections
sys.path.insert(0,'/verif/checks')
os.makedirs('/verif/.vs_scratch',exist_ok=True)
os.environ['VERIF_SCRATCH_BASE']='/verif/.vs_scratch'
import verifkit as vk
cfg=sys.argv[1]
d=json.load(open(sys.argv[2] if len(sys.argv)>2 else '/verif/.vs_scratch/last_drive.json'))
ev=d['ev']
v=vk.tlc_validate('ValsetTrace',ev,cfg=cfg,timeout=600)
print('accepted',v.accepted,'states',v.states,'wall',round(v.wall,1))
print('MON',collections.Counter(n for n,_,_ in v.monfail).most_common())
print('CONF',collections.Counter(n for n,_,_ in v.conffail).most_common())
for x in v.details[:4]: print(x[:600])
if not v.accepted: print(v.reject_tail)
json.dump({'mon':[(n,i,e) for n,i,e in v.monfail],'conf':[(n,i,e) for n,i,e in v.conffail]},open('/verif/.vs_scratch/last_val.json','w'))
