import sys, time, json
sys.path.insert(0, '/verif/checks')
import verifkit as vk
mod, cfg, mode = sys.argv[1], sys.argv[2], sys.argv[3]
num = int(sys.argv[4]) if len(sys.argv) > 4 else 100
depth = int(sys.argv[5]) if len(sys.argv) > 5 else 12
t0=time.time()
try:
    hs = vk.tlc_generate(mod, cfg, mode=mode, num=num, depth=depth, timeout=300)
    print(len(hs), "histories", "%.1fs" % (time.time()-t0))
    import collections
    print(collections.Counter(len(h) for h in hs))
    for h in hs[:: max(1, len(hs)//3)][:3]:
        print(json.dumps(h)[:900])
    json.dump(hs, open('/verif/.c14_scratch/%s.json' % cfg, 'w'))
except vk.Broken as e:
    print("BROKEN", str(e)[-3000:])
