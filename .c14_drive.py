import sys, json, time, collections
sys.path.insert(0, '/verif/checks')
import verifkit as vk
src = sys.argv[1]; n = int(sys.argv[2]); out = sys.argv[3]
hs = json.load(open(src))
import random
random.Random(1).shuffle(hs)
hs = hs[:n]
t0 = time.time()
ev = vk.go_drive('drivers/relaygate', 'TestDriveRelayGate', hs)
print(len(hs), "histories", len(ev), "events", "%.1fs" % (time.time() - t0))
print(collections.Counter(e['act'] + ':' + str(e.get('res')) for e in ev))
json.dump({"hs": hs, "ev": ev}, open(out, 'w'))
