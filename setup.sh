#!/bin/sh
# Offline setup: nothing persistent is built against /repo (every check recompiles its driver from
# /repo's current working tree); this only verifies that the tools are present and the specs parse.
set -e
cd "$(dirname "$0")"
export GOFLAGS=-mod=mod GOPROXY=off GOSUMDB=off GOTOOLCHAIN=local
command -v java >/dev/null
command -v go >/dev/null
test -f /opt/veriftools/tla/tla2tools.jar
python3 checks/gomod.py
S=$(mktemp -d)
trap 'rm -rf "$S"' EXIT
cp specs/*.tla specs/mc/*.tla specs/gen/*.tla specs/trace/*.tla "$S"/ 2>/dev/null || true
for f in specs/*.tla; do
  m=$(basename "$f")
  (cd "$S" && java -cp /opt/veriftools/tla/tla2tools.jar:/opt/veriftools/tla/CommunityModules-deps.jar tla2sany.SANY "$m" >"$S/sany.log" 2>&1) || { cat "$S/sany.log"; exit 1; }
done
echo setup ok
