// Package drv holds what every driver shares: reading TLC-generated histories,
// writing ndjson trace events, seed handling.
package drv

import (
	"bufio"
	"encoding/json"
	"fmt"
	"os"
	"strconv"
)

// Step is one action of a generated history.
type Step struct {
	Act  string          `json:"act"`
	Args json.RawMessage `json:"args"`
}

// History is one TLC-generated behaviour (projected on action names and arguments).
type History struct {
	H     int    `json:"h"`
	Steps []Step `json:"steps"`
}

// Seed returns VERIF_SEED (default 1).
func Seed() int64 {
	s, err := strconv.ParseInt(os.Getenv("VERIF_SEED"), 10, 64)
	if err != nil {
		return 1
	}
	return s
}

// LoadHistories reads the ndjson file named by VERIF_HIST.
func LoadHistories() ([]History, error) {
	p := os.Getenv("VERIF_HIST")
	if p == "" {
		return nil, fmt.Errorf("VERIF_HIST not set")
	}
	f, err := os.Open(p)
	if err != nil {
		return nil, err
	}
	defer f.Close()
	var hs []History
	sc := bufio.NewScanner(f)
	sc.Buffer(make([]byte, 1<<20), 1<<28)
	for sc.Scan() {
		if len(sc.Bytes()) == 0 {
			continue
		}
		var h History
		if err := json.Unmarshal(sc.Bytes(), &h); err != nil {
			return nil, err
		}
		hs = append(hs, h)
	}
	return hs, sc.Err()
}

// Emitter writes trace events.
type Emitter struct {
	f *os.File
	w *bufio.Writer
}

func NewEmitter() (*Emitter, error) {
	p := os.Getenv("VERIF_TRACE")
	if p == "" {
		return nil, fmt.Errorf("VERIF_TRACE not set")
	}
	f, err := os.Create(p)
	if err != nil {
		return nil, err
	}
	return &Emitter{f: f, w: bufio.NewWriterSize(f, 1<<20)}, nil
}

// Emit writes one event. ev must contain h, i, act.
func (e *Emitter) Emit(ev map[string]any) {
	b, err := json.Marshal(ev)
	if err != nil {
		panic(err)
	}
	e.w.Write(b)
	e.w.WriteByte('\n')
}

func (e *Emitter) Close() error {
	if err := e.w.Flush(); err != nil {
		return err
	}
	return e.f.Close()
}

// Recover runs f and converts a panic into an error string (recorded, never hidden).
func Recover(f func() error) (err error, panicked bool) {
	defer func() {
		if r := recover(); r != nil {
			err = fmt.Errorf("panic: %v", r)
			panicked = true
		}
	}()
	return f(), false
}
