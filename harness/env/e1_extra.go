package env

import (
	"fmt"

	"cosmossdk.io/math"
	"github.com/cosmos/cosmos-sdk/crypto/keys/ed25519"
	"github.com/cosmos/cosmos-sdk/crypto/keys/secp256k1"
	sdk "github.com/cosmos/cosmos-sdk/types"
	authtypes "github.com/cosmos/cosmos-sdk/x/auth/types"
	stakingkeeper "github.com/cosmos/cosmos-sdk/x/staking/keeper"
	stakingtypes "github.com/cosmos/cosmos-sdk/x/staking/types"
	"github.com/ethereum/go-ethereum/crypto"
	treasurytypes "github.com/palomachain/paloma/v2/x/treasury/types"
	valsettypes "github.com/palomachain/paloma/v2/x/valset/types"
)

// AddLateValidator creates one more bonded validator AFTER the environment's snapshot was built, i.e. a
// bonded validator that is not a member of the current snapshot (until somebody builds a new one).
func (e *E1) AddLateValidator(ctx sdk.Context, power int64) Val {
	i := len(e.Vals)
	o := e.Opts
	accPriv := secp256k1.GenPrivKeyFromSecret([]byte(fmt.Sprintf("verif-val-acc-%d-%d", o.Seed, i)))
	cons := ed25519.GenPrivKeyFromSecret([]byte(fmt.Sprintf("verif-val-cons-%d-%d", o.Seed, i)))
	ethKey, err := crypto.ToECDSA(crypto.Keccak256([]byte(fmt.Sprintf("verif-val-eth-%d-%d", o.Seed, i))))
	must(err)
	addr := []byte(accPriv.PubKey().Address())
	v := Val{Idx: i, AccPriv: accPriv, Acc: sdk.AccAddress(addr), Val: sdk.ValAddress(addr), Cons: cons, EthKey: ethKey,
		EthAddr: crypto.PubkeyToAddress(ethKey.PublicKey), Power: power}
	e.Account.SetAccount(ctx, e.Account.NewAccount(ctx, authtypes.NewBaseAccount(v.Acc, accPriv.PubKey(), uint64(100+i), 0)))
	tokens := sdk.TokensFromConsensusPower(power, sdk.DefaultPowerReduction)
	e.Fund(ctx, v.Acc, sdk.NewCoins(sdk.NewCoin(BondDenom, tokens.MulRaw(2))))
	commission := stakingtypes.NewCommissionRates(math.LegacyNewDecWithPrec(1, 1), math.LegacyNewDecWithPrec(2, 1), math.LegacyNewDecWithPrec(5, 3))
	msg, err := stakingtypes.NewMsgCreateValidator(v.Val.String(), cons.PubKey(), sdk.NewCoin(BondDenom, tokens),
		stakingtypes.Description{Moniker: fmt.Sprintf("late%d", i)}, commission, math.OneInt())
	must(err)
	_, err = stakingkeeper.NewMsgServerImpl(e.Staking).CreateValidator(ctx, msg)
	must(err)
	_, err = e.Staking.EndBlocker(ctx)
	must(err)
	var infos []*valsettypes.ExternalChainInfo
	var fees []treasurytypes.RelayerFeeSetting_FeeSetting
	for _, c := range o.Chains {
		ca := crypto.PubkeyToAddress(e.KeyFor(v, c).PublicKey)
		infos = append(infos, &valsettypes.ExternalChainInfo{ChainType: "evm", ChainReferenceID: c, Address: ca.Hex(), Pubkey: ca.Bytes()})
		fees = append(fees, treasurytypes.RelayerFeeSetting_FeeSetting{Multiplicator: math.LegacyMustNewDecFromStr("1.10"), ChainReferenceId: c})
	}
	must(e.Valset.AddExternalChainInfo(ctx, v.Val, infos))
	must(e.Treasury.SetRelayerFee(ctx, v.Val, &treasurytypes.RelayerFeeSetting{ValAddress: v.Val.String(), Fees: fees}))
	e.Vals = append(e.Vals, v)
	return v
}
