// Package env builds execution environments for the real Paloma code.
//
// E1: keeper wiring equivalent to x/skyway/keeper.CreateTestEnv, built only from exported
// constructors, with fault-injecting proxies for the skyway keeper's bank and EVM collaborators,
// several remote chains, really activated chains, deterministic keys (VERIF_SEED).
package env

import (
	"context"
	"crypto/ecdsa"
	"fmt"
	"math/big"
	"time"

	"cosmossdk.io/log"
	"cosmossdk.io/math"
	"cosmossdk.io/store"
	"cosmossdk.io/store/metrics"
	storetypes "cosmossdk.io/store/types"
	upgradekeeper "cosmossdk.io/x/upgrade/keeper"
	upgradetypes "cosmossdk.io/x/upgrade/types"
	tmproto "github.com/cometbft/cometbft/proto/tendermint/types"
	dbm "github.com/cosmos/cosmos-db"
	"github.com/cosmos/cosmos-sdk/baseapp"
	"github.com/cosmos/cosmos-sdk/codec"
	"github.com/cosmos/cosmos-sdk/crypto/keys/ed25519"
	"github.com/cosmos/cosmos-sdk/crypto/keys/secp256k1"
	ccrypto "github.com/cosmos/cosmos-sdk/crypto/types"
	"github.com/cosmos/cosmos-sdk/runtime"
	sdk "github.com/cosmos/cosmos-sdk/types"
	moduletestutil "github.com/cosmos/cosmos-sdk/types/module/testutil"
	"github.com/cosmos/cosmos-sdk/x/auth"
	authcodec "github.com/cosmos/cosmos-sdk/x/auth/codec"
	authkeeper "github.com/cosmos/cosmos-sdk/x/auth/keeper"
	authtypes "github.com/cosmos/cosmos-sdk/x/auth/types"
	"github.com/cosmos/cosmos-sdk/x/bank"
	bankkeeper "github.com/cosmos/cosmos-sdk/x/bank/keeper"
	banktypes "github.com/cosmos/cosmos-sdk/x/bank/types"
	distrkeeper "github.com/cosmos/cosmos-sdk/x/distribution/keeper"
	distrtypes "github.com/cosmos/cosmos-sdk/x/distribution/types"
	"github.com/cosmos/cosmos-sdk/x/gov"
	govtypes "github.com/cosmos/cosmos-sdk/x/gov/types"
	paramskeeper "github.com/cosmos/cosmos-sdk/x/params/keeper"
	paramstypes "github.com/cosmos/cosmos-sdk/x/params/types"
	slashingkeeper "github.com/cosmos/cosmos-sdk/x/slashing/keeper"
	slashingtypes "github.com/cosmos/cosmos-sdk/x/slashing/types"
	"github.com/cosmos/cosmos-sdk/x/staking"
	stakingkeeper "github.com/cosmos/cosmos-sdk/x/staking/keeper"
	stakingtypes "github.com/cosmos/cosmos-sdk/x/staking/types"
	capabilitykeeper "github.com/cosmos/ibc-go/modules/capability/keeper"
	capabilitytypes "github.com/cosmos/ibc-go/modules/capability/types"
	ibctransferkeeper "github.com/cosmos/ibc-go/v8/modules/apps/transfer/keeper"
	ibctransfertypes "github.com/cosmos/ibc-go/v8/modules/apps/transfer/types"
	ibcexported "github.com/cosmos/ibc-go/v8/modules/core/exported"
	ibckeeper "github.com/cosmos/ibc-go/v8/modules/core/keeper"
	gethcommon "github.com/ethereum/go-ethereum/common"
	"github.com/ethereum/go-ethereum/crypto"
	chainparams "github.com/palomachain/paloma/v2/app/params"
	"github.com/palomachain/paloma/v2/testutil/common"
	"github.com/palomachain/paloma/v2/x/consensus"
	consensuskeeper "github.com/palomachain/paloma/v2/x/consensus/keeper"
	consensustypes "github.com/palomachain/paloma/v2/x/consensus/types"
	"github.com/palomachain/paloma/v2/x/evm"
	evmkeeper "github.com/palomachain/paloma/v2/x/evm/keeper"
	evmtypes "github.com/palomachain/paloma/v2/x/evm/types"
	"github.com/palomachain/paloma/v2/x/metrix"
	metrixkeeper "github.com/palomachain/paloma/v2/x/metrix/keeper"
	metrixtypes "github.com/palomachain/paloma/v2/x/metrix/types"
	"github.com/palomachain/paloma/v2/x/scheduler"
	skywaykeeper "github.com/palomachain/paloma/v2/x/skyway/keeper"
	skywaytypes "github.com/palomachain/paloma/v2/x/skyway/types"
	"github.com/palomachain/paloma/v2/x/treasury"
	treasurykeeper "github.com/palomachain/paloma/v2/x/treasury/keeper"
	treasurytypes "github.com/palomachain/paloma/v2/x/treasury/types"
	"github.com/palomachain/paloma/v2/x/valset"
	valsetkeeper "github.com/palomachain/paloma/v2/x/valset/keeper"
	valsettypes "github.com/palomachain/paloma/v2/x/valset/types"
)

const BondDenom = "ugrain"

// Val is one validator of the environment.
type Val struct {
	Idx     int
	AccPriv ccrypto.PrivKey
	Acc     sdk.AccAddress
	Val     sdk.ValAddress
	Cons    ccrypto.PrivKey
	EthKey  *ecdsa.PrivateKey // one eth key, registered on every chain
	EthAddr gethcommon.Address
	Power   int64
}

// E1Options parametrises the environment.
type E1Options struct {
	PerChainKeys bool // validators register a different eth key on every chain but the first (default: one key for all chains)
	Seed         int64
	Powers       []int64  // consensus power per validator (tokens = power * 10^6)
	ExtraStake   []int64  // optional: additional raw tokens staked by validator i on top of power * 10^6 (boundary cases)
	Chains       []string // remote chain reference ids, all activated
	Authority    string   // skyway governance authority ("" like the repository's test env, or an address)
	NoActive     bool     // leave chains inactive
	Paloma       skywaytypes.PalomaKeeper
	TokenFact    skywaytypes.TokenFactoryKeeper
	ValAddrs     [][]byte // optional explicit operator address bytes per validator (C12 patterns)
	// NoChainInfo[i] lists chains on which validator i gets NO external chain info at set-up (C10).
	NoChainInfo map[int][]string
	// MaxValidators overrides the staking parameter (default 20).
	MaxValidators uint32
}

// E1 is the environment.
type E1 struct {
	Ctx       sdk.Context
	Opts      E1Options
	Cdc       codec.Codec
	Account   authkeeper.AccountKeeper
	Bank      bankkeeper.BaseKeeper
	Staking   *stakingkeeper.Keeper
	Slashing  slashingkeeper.Keeper
	Dist      distrkeeper.Keeper
	Valset    *valsetkeeper.Keeper
	Consensus *consensuskeeper.Keeper
	Evm       *evmkeeper.Keeper
	Treasury  *treasurykeeper.Keeper
	Metrix    *metrixkeeper.Keeper
	Skyway    skywaykeeper.Keeper
	SkywayMsg skywaytypes.MsgServer
	BankProxy *BankProxy
	EvmProxy  *EvmProxy
	Vals      []Val
	CompassID map[string]string
	Keys      map[string]*storetypes.KVStoreKey // raw store keys (read-only observation of module stores)
}

func subspace(k paramskeeper.Keeper, name string) paramstypes.Subspace {
	s, _ := k.GetSubspace(name)
	return s
}

// NewE1 builds the environment. It panics on set-up errors (they are harness bugs, never verdicts).
func NewE1(o E1Options) *E1 {
	common.SetupPalomaPrefixes()
	if len(o.Chains) == 0 {
		o.Chains = []string{"eth-a"}
	}
	if len(o.Powers) == 0 {
		o.Powers = []int64{10, 10, 10, 10, 10}
	}
	keyNames := []string{
		skywaytypes.StoreKey, authtypes.StoreKey, stakingtypes.StoreKey, banktypes.StoreKey, distrtypes.StoreKey,
		paramstypes.StoreKey, govtypes.StoreKey, slashingtypes.StoreKey, capabilitytypes.StoreKey, upgradetypes.StoreKey,
		ibcexported.StoreKey, ibctransfertypes.StoreKey, valsettypes.StoreKey, valsettypes.MemStoreKey,
		consensustypes.StoreKey, consensustypes.MemStoreKey, evmtypes.StoreKey, evmtypes.MemStoreKey,
		treasurytypes.StoreKey, treasurytypes.MemStoreKey, metrixtypes.StoreKey, metrixtypes.MemStoreKey,
	}
	keys := map[string]*storetypes.KVStoreKey{}
	db := dbm.NewMemDB()
	ms := store.NewCommitMultiStore(db, log.NewNopLogger(), metrics.NewNoOpMetrics())
	for _, n := range keyNames {
		keys[n] = storetypes.NewKVStoreKey(n)
		ms.MountStoreWithDB(keys[n], storetypes.StoreTypeIAVL, db)
	}
	tkeyParams := storetypes.NewTransientStoreKey(paramstypes.TStoreKey)
	ms.MountStoreWithDB(tkeyParams, storetypes.StoreTypeTransient, db)
	if err := ms.LoadLatestVersion(); err != nil {
		panic(err)
	}
	ctx := sdk.NewContext(ms, tmproto.Header{Height: 1000, Time: time.Date(2024, 1, 1, 12, 0, 0, 0, time.UTC)}, false, log.NewNopLogger())

	enc := moduletestutil.MakeTestEncodingConfig(
		auth.AppModuleBasic{}, bank.AppModuleBasic{}, gov.AppModuleBasic{}, evm.AppModuleBasic{}, staking.AppModuleBasic{},
		scheduler.AppModuleBasic{}, valset.AppModuleBasic{}, consensus.AppModuleBasic{}, treasury.AppModuleBasic{}, metrix.AppModuleBasic{},
	)
	skywaytypes.RegisterInterfaces(enc.InterfaceRegistry)
	appCodec := codec.NewProtoCodec(enc.InterfaceRegistry)
	marshaler := appCodec
	legacyAmino := codec.NewLegacyAmino()

	pk := paramskeeper.NewKeeper(marshaler, legacyAmino, keys[paramstypes.StoreKey], tkeyParams)
	for _, n := range []string{authtypes.ModuleName, banktypes.ModuleName, stakingtypes.ModuleName, distrtypes.ModuleName, govtypes.ModuleName,
		skywaytypes.DefaultParamspace, slashingtypes.ModuleName, ibcexported.ModuleName, ibctransfertypes.ModuleName, valsettypes.ModuleName,
		consensustypes.ModuleName, evmtypes.ModuleName, treasurytypes.ModuleName, metrixtypes.ModuleName} {
		pk.Subspace(n)
	}
	maccPerms := map[string][]string{
		authtypes.FeeCollectorName:     nil,
		distrtypes.ModuleName:          nil,
		stakingtypes.BondedPoolName:    {authtypes.Burner, authtypes.Staking},
		stakingtypes.NotBondedPoolName: {authtypes.Burner, authtypes.Staking},
		govtypes.ModuleName:            {authtypes.Burner},
		skywaytypes.ModuleName:         {authtypes.Minter, authtypes.Burner},
		ibctransfertypes.ModuleName:    {authtypes.Minter, authtypes.Burner},
	}
	govAuth := authtypes.NewModuleAddress(govtypes.ModuleName).String()
	accountKeeper := authkeeper.NewAccountKeeper(appCodec, runtime.NewKVStoreService(keys[authtypes.StoreKey]), authtypes.ProtoBaseAccount,
		maccPerms, authcodec.NewBech32Codec(chainparams.AccountAddressPrefix), chainparams.AccountAddressPrefix, govAuth)
	blocked := map[string]bool{}
	for acc := range maccPerms {
		blocked[authtypes.NewModuleAddress(acc).String()] = true
	}
	bankKeeper := bankkeeper.NewBaseKeeper(marshaler, runtime.NewKVStoreService(keys[banktypes.StoreKey]), accountKeeper, blocked, govAuth, log.NewNopLogger())
	must(bankKeeper.SetParams(ctx, banktypes.Params{DefaultSendEnabled: true}))
	stakingKeeper := stakingkeeper.NewKeeper(appCodec, runtime.NewKVStoreService(keys[stakingtypes.StoreKey]), accountKeeper, bankKeeper, govAuth,
		authcodec.NewBech32Codec(chainparams.ValidatorAddressPrefix), authcodec.NewBech32Codec(chainparams.ConsNodeAddressPrefix))
	maxVals := uint32(20)
	if o.MaxValidators > 0 {
		maxVals = o.MaxValidators
	}
	sp := stakingtypes.Params{UnbondingTime: 100, MaxValidators: maxVals, MaxEntries: 10, HistoricalEntries: 10000, BondDenom: BondDenom, MinCommissionRate: math.LegacyNewDecWithPrec(5, 2)}
	must(stakingKeeper.SetParams(ctx, sp))
	distKeeper := distrkeeper.NewKeeper(appCodec, runtime.NewKVStoreService(keys[distrtypes.StoreKey]), accountKeeper, bankKeeper, stakingKeeper, authtypes.FeeCollectorName, govAuth)
	must(distKeeper.Params.Set(ctx, distrtypes.DefaultParams()))
	must(distKeeper.FeePool.Set(ctx, distrtypes.InitialFeePool()))
	for name := range maccPerms {
		accountKeeper.GetModuleAccountAndPermissions(ctx, name)
	}
	bApp := baseapp.NewBaseApp("verif", log.NewNopLogger(), db, enc.TxConfig.TxDecoder())
	slashingKeeper := slashingkeeper.NewKeeper(marshaler, legacyAmino, runtime.NewKVStoreService(keys[slashingtypes.StoreKey]), stakingKeeper, govAuth)
	must(slashingKeeper.SetParams(ctx, slashingtypes.DefaultParams()))
	upgradeKeeper := upgradekeeper.NewKeeper(map[int64]bool{}, runtime.NewKVStoreService(keys[upgradetypes.StoreKey]), marshaler, "", bApp, govAuth)
	memKeys := storetypes.NewMemoryStoreKeys(capabilitytypes.MemStoreKey)
	capabilityKeeper := *capabilitykeeper.NewKeeper(marshaler, keys[capabilitytypes.StoreKey], memKeys[capabilitytypes.MemStoreKey])
	scopedIbc := capabilityKeeper.ScopeToModule(ibcexported.ModuleName)
	ibcKeeper := *ibckeeper.NewKeeper(marshaler, keys[ibcexported.StoreKey], subspace(pk, ibcexported.ModuleName), stakingKeeper, upgradeKeeper, scopedIbc, govAuth)
	scopedTransfer := capabilityKeeper.ScopeToModule(ibctransfertypes.ModuleName)
	ibcTransferKeeper := ibctransferkeeper.NewKeeper(marshaler, keys[ibctransfertypes.StoreKey], subspace(pk, ibctransfertypes.ModuleName),
		ibcKeeper.ChannelKeeper, ibcKeeper.ChannelKeeper, ibcKeeper.PortKeeper, accountKeeper, bankKeeper, scopedTransfer, govAuth)

	valsetKeeper := valsetkeeper.NewKeeper(marshaler, runtime.NewKVStoreService(keys[valsettypes.StoreKey]), subspace(pk, valsettypes.ModuleName),
		stakingKeeper, slashingKeeper, sdk.DefaultPowerReduction, authcodec.NewBech32Codec(chainparams.ValidatorAddressPrefix))
	evmKeeper := &evmkeeper.Keeper{}
	treasuryKeeper := treasurykeeper.NewKeeper(appCodec, runtime.NewKVStoreService(keys[treasurytypes.StoreKey]), subspace(pk, treasurytypes.ModuleName),
		bankKeeper, accountKeeper, evmKeeper)
	consensusRegistry := consensuskeeper.NewRegistry()
	consensusKeeper := consensuskeeper.NewKeeper(marshaler, runtime.NewKVStoreService(keys[consensustypes.StoreKey]), subspace(pk, consensustypes.ModuleName),
		valsetKeeper, consensusRegistry, treasuryKeeper)
	metrixKeeper := metrixkeeper.NewKeeper(appCodec, runtime.NewKVStoreService(keys[metrixtypes.StoreKey]), subspace(pk, metrixtypes.ModuleName),
		slashingKeeper, stakingKeeper, authcodec.NewBech32Codec(chainparams.ValidatorAddressPrefix))
	consensusKeeper.AddMessageConsensusAttestedListener(&metrixKeeper)
	*evmKeeper = *evmkeeper.NewKeeper(appCodec, runtime.NewKVStoreService(keys[evmtypes.StoreKey]), govAuth, consensusKeeper, valsetKeeper,
		authcodec.NewBech32Codec(chainparams.ValidatorAddressPrefix), &metrixKeeper, *treasuryKeeper)
	valsetKeeper.EvmKeeper = evmKeeper
	valsetKeeper.SnapshotListeners = []valsettypes.OnSnapshotBuiltListener{evmKeeper, &metrixKeeper}
	consensusRegistry.Add(evmKeeper)

	for i, c := range o.Chains {
		must(evmKeeper.AddSupportForNewChain(ctx, c, uint64(100+i), 123, "0x1234", big.NewInt(55)))
	}

	bp := &BankProxy{Real: bankKeeper}
	ep := &EvmProxy{Real: evmKeeper}
	sk := skywaykeeper.NewKeeper(marshaler, accountKeeper, stakingKeeper, bp, slashingKeeper, distKeeper, ibcTransferKeeper, ep, consensusKeeper,
		o.Paloma, o.TokenFact, skywaykeeper.NewSkywayStoreGetter(keys[skywaytypes.StoreKey]), o.Authority,
		authcodec.NewBech32Codec(chainparams.ValidatorAddressPrefix))
	stakingKeeper.SetHooks(stakingtypes.NewMultiStakingHooks(distKeeper.Hooks(), slashingKeeper.Hooks(), sk.Hooks()))

	e := &E1{Ctx: ctx, Opts: o, Cdc: marshaler, Account: accountKeeper, Bank: bankKeeper, Staking: stakingKeeper, Slashing: slashingKeeper,
		Dist: distKeeper, Valset: valsetKeeper, Consensus: consensusKeeper, Evm: evmKeeper, Treasury: treasuryKeeper, Metrix: &metrixKeeper,
		Skyway: sk, SkywayMsg: skywaykeeper.NewMsgServerImpl(sk), BankProxy: bp, EvmProxy: ep, CompassID: map[string]string{}, Keys: keys}

	// skyway genesis: cursors and id counters as a real genesis would set them
	gs := skywaytypes.DefaultGenesisState()
	for _, c := range o.Chains {
		gs.SkywayNonces = append(gs.SkywayNonces, skywaytypes.SkywayNonces{ChainReferenceId: c, LastObservedNonce: 0, LastSlashedBatchBlock: 0, LastTxPoolId: 0, LastBatchId: 0})
	}
	skywaykeeper.InitGenesis(ctx, sk, *gs)

	e.addValidators()
	if !o.NoActive {
		for i, c := range o.Chains {
			id := fmt.Sprintf("compass-%s-1", c)
			must(evmKeeper.ActivateChainReferenceID(ctx, c, &evmtypes.SmartContract{Id: uint64(1)}, fmt.Sprintf("0x%040x", 0xc0de00+i), []byte(id)))
			e.CompassID[c] = id
		}
	}
	return e
}

func must(err error) {
	if err != nil {
		panic(err)
	}
}

// Fund mints coins out of thin air into an account (set-up only; goes through the real bank keeper).
func (e *E1) Fund(ctx sdk.Context, addr sdk.AccAddress, coins sdk.Coins) {
	must(e.Bank.MintCoins(ctx, skywaytypes.ModuleName, coins))
	must(e.Bank.SendCoinsFromModuleToAccount(ctx, skywaytypes.ModuleName, addr, coins))
}

func (e *E1) addValidators() {
	ctx := e.Ctx
	o := e.Opts
	srv := stakingkeeper.NewMsgServerImpl(e.Staking)
	for i, p := range o.Powers {
		accPriv := secp256k1.GenPrivKeyFromSecret([]byte(fmt.Sprintf("verif-val-acc-%d-%d", o.Seed, i)))
		cons := ed25519.GenPrivKeyFromSecret([]byte(fmt.Sprintf("verif-val-cons-%d-%d", o.Seed, i)))
		ethKey, err := crypto.ToECDSA(crypto.Keccak256([]byte(fmt.Sprintf("verif-val-eth-%d-%d", o.Seed, i))))
		must(err)
		addr := []byte(accPriv.PubKey().Address())
		if i < len(o.ValAddrs) && o.ValAddrs[i] != nil {
			addr = o.ValAddrs[i]
		}
		v := Val{Idx: i, AccPriv: accPriv, Acc: sdk.AccAddress(addr), Val: sdk.ValAddress(addr), Cons: cons, EthKey: ethKey,
			EthAddr: crypto.PubkeyToAddress(ethKey.PublicKey), Power: p}
		acc := e.Account.NewAccount(ctx, authtypes.NewBaseAccount(v.Acc, accPriv.PubKey(), uint64(i), 0))
		e.Account.SetAccount(ctx, acc)
		tokens := sdk.TokensFromConsensusPower(p, sdk.DefaultPowerReduction)
		if i < len(o.ExtraStake) {
			tokens = tokens.AddRaw(o.ExtraStake[i])
		}
		e.Fund(ctx, v.Acc, sdk.NewCoins(sdk.NewCoin(BondDenom, tokens.MulRaw(2))))
		commission := stakingtypes.NewCommissionRates(math.LegacyNewDecWithPrec(1, 1), math.LegacyNewDecWithPrec(2, 1), math.LegacyNewDecWithPrec(5, 3))
		msg, err := stakingtypes.NewMsgCreateValidator(v.Val.String(), cons.PubKey(), sdk.NewCoin(BondDenom, tokens),
			stakingtypes.Description{Moniker: fmt.Sprintf("v%d", i)}, commission, math.OneInt())
		must(err)
		_, err = srv.CreateValidator(ctx, msg)
		must(err)
		e.Vals = append(e.Vals, v)
	}
	_, err := e.Staking.EndBlocker(ctx)
	must(err)
	for _, v := range e.Vals {
		var infos []*valsettypes.ExternalChainInfo
		var fees []treasurytypes.RelayerFeeSetting_FeeSetting
		for _, c := range o.Chains {
			if !skipChainInfo(o.NoChainInfo[v.Idx], c) {
				ca := crypto.PubkeyToAddress(e.KeyFor(v, c).PublicKey)
				infos = append(infos, &valsettypes.ExternalChainInfo{ChainType: "evm", ChainReferenceID: c, Address: ca.Hex(), Pubkey: ca.Bytes()})
			}
			fees = append(fees, treasurytypes.RelayerFeeSetting_FeeSetting{Multiplicator: math.LegacyMustNewDecFromStr("1.10"), ChainReferenceId: c})
		}
		must(e.Valset.AddExternalChainInfo(ctx, v.Val, infos))
		must(e.Treasury.SetRelayerFee(ctx, v.Val, &treasurytypes.RelayerFeeSetting{ValAddress: v.Val.String(), Fees: fees}))
	}
	_, err = e.Valset.TriggerSnapshotBuild(ctx)
	must(err)
	e.Metrix.UpdateUptime(ctx)
}

// KeyFor is the eth key validator v registers on chain c.
func (e *E1) KeyFor(v Val, c string) *ecdsa.PrivateKey {
	if !e.Opts.PerChainKeys || len(e.Opts.Chains) == 0 || c == e.Opts.Chains[0] {
		return v.EthKey
	}
	k, err := crypto.ToECDSA(crypto.Keccak256([]byte(fmt.Sprintf("verif-val-eth-%d-%d-%s", e.Opts.Seed, v.Idx, c))))
	must(err)
	return k
}

func skipChainInfo(skip []string, c string) bool {
	for _, s := range skip {
		if s == c {
			return true
		}
	}
	return false
}

// RunMsg runs f the way baseapp.runMsgs runs a message: on a cache context that is written only on success.
func RunMsg(ctx sdk.Context, f func(ctx sdk.Context) error) (err error, panicked bool) {
	cctx, write := ctx.CacheContext()
	defer func() {
		if r := recover(); r != nil {
			err = fmt.Errorf("panic: %v", r)
			panicked = true
		}
	}()
	err = f(cctx)
	if err == nil {
		write()
	}
	return err, false
}

var _ = context.Background
