//go:build verif

package env

import "testing"

func TestE1Builds(t *testing.T) {
	e := NewE1(E1Options{Seed: 1, Chains: []string{"eth-a", "eth-b"}, Powers: []int64{5, 3, 2}})
	if len(e.Vals) != 3 {
		t.Fatal("vals")
	}
	names := e.Evm.GetActiveChainNames(e.Ctx)
	if len(names) != 2 {
		t.Fatalf("active chains %v", names)
	}
	snap, err := e.Valset.GetCurrentSnapshot(e.Ctx)
	if err != nil || len(snap.Validators) != 3 {
		t.Fatalf("snapshot %v %v", snap, err)
	}
}
