package env

// Restart / Fork for E2 (used by the chain-history drivers, properties C08 / C09).
//
//   Restart  what a node restart does: the App object is dropped and app.New is called on the SAME
//            database; everything that only lived in memory (caches held by keepers, the check state,
//            the score cache of the message assigner ...) is gone, the committed state is loaded
//            from the database.
//   Fork     a second chain that starts from a copy of the database of this one (cheap way to get
//            many independent continuations of one prepared world). The original must not be driven
//            any further while the fork is alive (util/eventbus keeps subscribers in package globals).
//
// e2.go creates the MemDB inside NewE2 and does not keep a reference; the database is taken from the
// BaseApp (unexported field `db`) by reflection so that the genesis construction of NewE2 is reused as is.

import (
	"fmt"
	"io"
	"math/rand"
	"os"
	"reflect"
	"unsafe"

	"cosmossdk.io/log"
	abci "github.com/cometbft/cometbft/abci/types"
	dbm "github.com/cosmos/cosmos-db"
	"github.com/cosmos/cosmos-sdk/baseapp"
	simtestutil "github.com/cosmos/cosmos-sdk/testutil/sims"
	"github.com/palomachain/paloma/v2/app"
)

// DB returns the database the application was created on.
func (e *E2) DB() dbm.DB {
	f := reflect.ValueOf(e.App.BaseApp).Elem().FieldByName("db")
	if !f.IsValid() {
		panic("baseapp.BaseApp has no field db")
	}
	db, ok := reflect.NewAt(f.Type(), unsafe.Pointer(f.UnsafeAddr())).Elem().Interface().(dbm.DB)
	if !ok || db == nil {
		panic("baseapp.BaseApp.db is not a dbm.DB")
	}
	return db
}

func newAppOn(db dbm.DB, home, chainID string) (a *app.App, err error) {
	defer func() {
		if r := recover(); r != nil {
			a, err = nil, fmt.Errorf("app.New panicked: %v", r)
		}
	}()
	return app.New(log.NewNopLogger(), db, io.Discard, true,
		simtestutil.NewAppOptionsWithFlagHome(home), baseapp.SetChainID(chainID)), nil
}

// Restart drops the App object and creates a new one on the same database.
// The committed height and app hash must be the ones of the dropped application.
// The wasm VM of the dropped application keeps an exclusive lock on <home>/wasm for as long as the process
// lives (a real restart ends the process), so the new application gets a fresh home directory; nothing of the
// chain state lives there (the wasm directory is a compilation cache, no contract is ever stored by the harness).
func (e *E2) Restart() error {
	if e.closed {
		return fmt.Errorf("restart of a closed E2")
	}
	db := e.DB()
	wantH, wantHash := e.App.LastBlockHeight(), e.App.LastCommitID().Hash
	home, err := os.MkdirTemp("", "verif-e2-")
	if err != nil {
		return err
	}
	_ = e.App.Close() // MemDB.Close is a no-op: the data stays
	a, err := newAppOn(db, home, e.ChainID)
	if err != nil {
		_ = os.RemoveAll(home)
		return err
	}
	if a.LastBlockHeight() != wantH || string(a.LastCommitID().Hash) != string(wantHash) {
		_ = os.RemoveAll(home)
		return fmt.Errorf("restart: loaded height %d hash %x, expected %d %x", a.LastBlockHeight(), a.LastCommitID().Hash, wantH, wantHash)
	}
	_ = os.RemoveAll(e.home)
	e.App, e.home = a, home
	return nil
}

// Fork copies the database and starts a new application on the copy (own home directory). Accounts,
// validator sets, height and time are copied; the fork signs with its own random source (seeded from
// Opts.Seed and salt; SIGN_MODE_DIRECT with secp256k1 is deterministic, the source only feeds the mock tx memo).
func (e *E2) Fork(salt int64) (*E2, error) {
	if e.closed {
		return nil, fmt.Errorf("fork of a closed E2")
	}
	src := e.DB()
	dst := dbm.NewMemDB()
	it, err := src.Iterator(nil, nil)
	if err != nil {
		return nil, err
	}
	for ; it.Valid(); it.Next() {
		k, v := it.Key(), it.Value()
		if err := dst.Set(append([]byte{}, k...), append([]byte{}, v...)); err != nil {
			it.Close()
			return nil, err
		}
	}
	if err := it.Close(); err != nil {
		return nil, err
	}
	home, err := os.MkdirTemp("", "verif-e2-")
	if err != nil {
		return nil, err
	}
	a, err := newAppOn(dst, home, e.ChainID)
	if err != nil {
		_ = os.RemoveAll(home)
		return nil, err
	}
	if a.LastBlockHeight() != e.Height {
		_ = os.RemoveAll(home)
		return nil, fmt.Errorf("fork: loaded height %d, expected %d", a.LastBlockHeight(), e.Height)
	}
	f := &E2{App: a, ChainID: e.ChainID, Height: e.Height, Time: e.Time, Opts: e.Opts, nVals: e.nVals, home: home,
		rnd: rand.New(rand.NewSource(e.Opts.Seed*7919 + salt)), byAddr: map[string]*Account{}, sets: map[int64][]abci.Validator{}, LastRes: e.LastRes}
	f.Accounts = append([]Account{}, e.Accounts...)
	for i := range f.Accounts {
		f.byAddr[string(f.Accounts[i].Addr)] = &f.Accounts[i]
	}
	f.Vals = append([]E2Val{}, e.Vals...)
	for i := range f.Vals {
		f.Vals[i].Acc = &f.Accounts[i]
	}
	for h, s := range e.sets {
		f.sets[h] = append([]abci.Validator{}, s...)
	}
	return f, nil
}

// AddAccount registers one more key pair with the bookkeeping (an account that is funded later by a
// transaction); number and sequence are read from state after every block.
func (e *E2) AddAccount(a Account) *Account {
	a.Idx = len(e.Accounts)
	// e.Accounts must not be re-allocated (E2Val.Acc and byAddr point into it)
	if len(e.Accounts) == cap(e.Accounts) {
		old := e.Accounts
		e.Accounts = make([]Account, len(old), 2*len(old)+4)
		copy(e.Accounts, old)
		for i := range e.Accounts {
			e.byAddr[string(e.Accounts[i].Addr)] = &e.Accounts[i]
		}
		for i := range e.Vals {
			e.Vals[i].Acc = &e.Accounts[i]
		}
	}
	e.Accounts = append(e.Accounts, a)
	p := &e.Accounts[len(e.Accounts)-1]
	e.byAddr[string(p.Addr)] = p
	return p
}
