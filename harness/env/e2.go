package env

// E2: the full Paloma application (app.New) in process: real ante chain, real message router,
// real module manager order, real begin/end blockers, driven through the ABCI methods
// InitChain / FinalizeBlock / Commit with really signed transactions.
//
// Rules of use
//   - util/eventbus keeps its subscribers in package globals: never keep two live apps
//     interleaved in one process. Create, drive to the end, Close, drop.
//   - Everything is derived from E2Options.Seed (keys), fixed genesis time and a fixed block time
//     increment: two runs with the same options and the same calls are bit-identical.
//   - This file may only be imported by `//go:build verif` test files.

import (
	"encoding/json"
	"fmt"
	"io"
	"math/rand"
	"os"
	"runtime/debug"
	"sort"
	"time"

	"cosmossdk.io/log"
	"cosmossdk.io/math"
	abci "github.com/cometbft/cometbft/abci/types"
	cmtproto "github.com/cometbft/cometbft/proto/tendermint/types"
	dbm "github.com/cosmos/cosmos-db"
	"github.com/cosmos/cosmos-sdk/baseapp"
	"github.com/cosmos/cosmos-sdk/codec"
	codectypes "github.com/cosmos/cosmos-sdk/codec/types"
	"github.com/cosmos/cosmos-sdk/crypto/keys/ed25519"
	"github.com/cosmos/cosmos-sdk/crypto/keys/secp256k1"
	ccrypto "github.com/cosmos/cosmos-sdk/crypto/types"
	simtestutil "github.com/cosmos/cosmos-sdk/testutil/sims"
	sdk "github.com/cosmos/cosmos-sdk/types"
	"github.com/cosmos/cosmos-sdk/version"
	authtypes "github.com/cosmos/cosmos-sdk/x/auth/types"
	banktypes "github.com/cosmos/cosmos-sdk/x/bank/types"
	stakingtypes "github.com/cosmos/cosmos-sdk/x/staking/types"
	"github.com/palomachain/paloma/v2/app"
	chainparams "github.com/palomachain/paloma/v2/app/params"
	"github.com/palomachain/paloma/v2/testutil/common"
)

// Account is a key pair with an on-chain account.
type Account struct {
	Idx  int    // index in E2.Accounts
	Name string // "val0", "user2", ...
	Priv ccrypto.PrivKey
	Addr sdk.AccAddress
	Num  uint64 // account number (from state)
	Seq  uint64 // next sequence to sign with (re-read from state after every block)
}

// Bech32 returns the paloma1... address.
func (a *Account) Bech32() string { return a.Addr.String() }

// E2Val is a genesis validator: operator account, consensus key, power.
type E2Val struct {
	Idx     int
	Acc     *Account // operator account (valoper address = same bytes)
	ValAddr sdk.ValAddress
	Cons    ccrypto.PrivKey // ed25519 consensus key
	Power   int64
}

// ConsAddr returns the consensus address bytes (what CometBFT puts into votes).
func (v *E2Val) ConsAddr() []byte { return v.Cons.PubKey().Address() }

// E2Options parametrises the environment.
type E2Options struct {
	Seed      int64
	ChainID   string                                     // default "verif-e2"
	Powers    []int64                                    // consensus power per genesis validator (tokens = power * 10^6 ugrain, self delegated); default {10,10,10}
	Users     []sdk.Coins                                // initial coins of every funded user account (len = number of users)
	NumUsers  int                                        // if Users is nil: that many users with DefaultUserCoins each
	ValCoins  sdk.Coins                                  // liquid coins of every validator operator account (default 1000 GRAIN)
	Genesis   func(cdc codec.Codec, gs app.GenesisState) // last-minute genesis edits (params of any module, extra state)
	BlockTime time.Duration                              // fixed block time increment (default 5 s)
	GenTime   time.Time                                  // genesis time (default 2024-01-01T12:00:00Z)
	Gas       uint64                                     // gas limit of signed txs (default 5_000_000)
}

// DefaultUserCoins is what a user gets when only NumUsers is given.
var DefaultUserCoins = sdk.NewCoins(sdk.NewInt64Coin(BondDenom, 1_000_000_000))

// E2 is the running application plus the bookkeeping CometBFT would do.
type E2 struct {
	App      *app.App
	ChainID  string
	Height   int64     // last committed height
	Time     time.Time // time of the last committed block (genesis time before the first block)
	Accounts []Account // validators' operator accounts first, then users
	Vals     []E2Val
	Opts     E2Options

	nVals   int
	home    string
	rnd     *rand.Rand
	byAddr  map[string]*Account
	sets    map[int64][]abci.Validator // validator set that validates block h (kept for the last few heights)
	LastRes *abci.ResponseFinalizeBlock
	closed  bool
}

// NewE2 builds the app, runs InitChain on a genesis with really bonded validators and funded accounts.
// Set-up errors panic (harness bugs, never verdicts).
func NewE2(o E2Options) *E2 {
	common.SetupPalomaPrefixes()
	// the node binary (app/params.SetAddressPrefixes) also sets the consensus-node prefix; without it exported state
	// (distribution's previous proposer, slashing) carries "cosmosvalcons..." strings the app's own codecs reject
	sdk.GetConfig().SetBech32PrefixForConsensusNode(chainparams.ConsNodeAddressPrefix, chainparams.ConsNodePubKeyPrefix)
	version.Version = "v2.4.11"
	if o.ChainID == "" {
		o.ChainID = "verif-e2"
	}
	if len(o.Powers) == 0 {
		o.Powers = []int64{10, 10, 10}
	}
	if o.Users == nil {
		for i := 0; i < o.NumUsers; i++ {
			o.Users = append(o.Users, DefaultUserCoins)
		}
	}
	if o.ValCoins == nil {
		o.ValCoins = sdk.NewCoins(sdk.NewInt64Coin(BondDenom, 1_000_000_000))
	}
	if o.BlockTime == 0 {
		o.BlockTime = 5 * time.Second
	}
	if o.GenTime.IsZero() {
		o.GenTime = time.Date(2024, 1, 1, 12, 0, 0, 0, time.UTC)
	}
	if o.Gas == 0 {
		o.Gas = 5_000_000
	}
	home, err := os.MkdirTemp("", "verif-e2-")
	must(err)
	a := app.New(log.NewNopLogger(), dbm.NewMemDB(), io.Discard, true,
		simtestutil.NewAppOptionsWithFlagHome(home), baseapp.SetChainID(o.ChainID))
	e := &E2{App: a, ChainID: o.ChainID, Time: o.GenTime, Opts: o, home: home, nVals: len(o.Powers),
		rnd: rand.New(rand.NewSource(o.Seed)), byAddr: map[string]*Account{}, sets: map[int64][]abci.Validator{}}

	// keys
	for i, p := range o.Powers {
		priv := secp256k1.GenPrivKeyFromSecret([]byte(fmt.Sprintf("verif-e2-val-acc-%d-%d", o.Seed, i)))
		cons := ed25519.GenPrivKeyFromSecret([]byte(fmt.Sprintf("verif-e2-val-cons-%d-%d", o.Seed, i)))
		e.Accounts = append(e.Accounts, Account{Idx: i, Name: fmt.Sprintf("val%d", i), Priv: priv, Addr: sdk.AccAddress(priv.PubKey().Address())})
		e.Vals = append(e.Vals, E2Val{Idx: i, ValAddr: sdk.ValAddress(priv.PubKey().Address()), Cons: cons, Power: p})
	}
	for i := range o.Users {
		priv := secp256k1.GenPrivKeyFromSecret([]byte(fmt.Sprintf("verif-e2-user-%d-%d", o.Seed, i)))
		e.Accounts = append(e.Accounts, Account{Idx: e.nVals + i, Name: fmt.Sprintf("user%d", i), Priv: priv, Addr: sdk.AccAddress(priv.PubKey().Address())})
	}
	for i := range e.Accounts {
		e.Accounts[i].Num = uint64(i) // genesis account numbers; re-read from state after every block
		e.byAddr[string(e.Accounts[i].Addr)] = &e.Accounts[i]
	}
	for i := range e.Vals {
		e.Vals[i].Acc = &e.Accounts[i]
	}

	// genesis
	cdc := a.AppCodec()
	gs := app.GenesisState(a.DefaultGenesis())
	var genAccs []authtypes.GenesisAccount
	var balances []banktypes.Balance
	supply := sdk.NewCoins()
	for i := range e.Accounts {
		acc := &e.Accounts[i]
		genAccs = append(genAccs, authtypes.NewBaseAccount(acc.Addr, nil, uint64(i), 0))
		coins := o.ValCoins
		if i >= e.nVals {
			coins = o.Users[i-e.nVals]
		}
		if !coins.IsZero() {
			balances = append(balances, banktypes.Balance{Address: acc.Addr.String(), Coins: coins})
			supply = supply.Add(coins...)
		}
	}
	var authGen authtypes.GenesisState
	cdc.MustUnmarshalJSON(gs[authtypes.ModuleName], &authGen)
	packed, err := authtypes.PackAccounts(genAccs)
	must(err)
	authGen.Accounts = packed
	gs[authtypes.ModuleName] = cdc.MustMarshalJSON(&authGen)

	var stGen stakingtypes.GenesisState
	cdc.MustUnmarshalJSON(gs[stakingtypes.ModuleName], &stGen)
	// Validators enter genesis unbonded with their stake in the not-bonded pool; staking's InitGenesis bonds them
	// through ApplyAndReturnValidatorSetUpdates (the path gentxs take), which fires the real hooks
	// (distribution records, slashing signing infos, Paloma hooks).
	bonded := math.ZeroInt()
	for i := range e.Vals {
		v := &e.Vals[i]
		pkAny, err := codectypes.NewAnyWithValue(v.Cons.PubKey())
		must(err)
		tokens := sdk.TokensFromConsensusPower(v.Power, sdk.DefaultPowerReduction)
		stGen.Validators = append(stGen.Validators, stakingtypes.Validator{
			OperatorAddress: v.ValAddr.String(), ConsensusPubkey: pkAny, Jailed: false, Status: stakingtypes.Unbonded,
			Tokens: tokens, DelegatorShares: math.LegacyNewDecFromInt(tokens),
			Description:     stakingtypes.Description{Moniker: fmt.Sprintf("v%d", i)},
			UnbondingHeight: 0, UnbondingTime: time.Unix(0, 0).UTC(),
			Commission:        stakingtypes.NewCommission(math.LegacyNewDecWithPrec(1, 1), math.LegacyNewDecWithPrec(2, 1), math.LegacyNewDecWithPrec(1, 2)),
			MinSelfDelegation: math.OneInt(),
		})
		stGen.Delegations = append(stGen.Delegations, stakingtypes.NewDelegation(v.Acc.Addr.String(), v.ValAddr.String(), math.LegacyNewDecFromInt(tokens)))
		bonded = bonded.Add(tokens)
	}
	gs[stakingtypes.ModuleName] = cdc.MustMarshalJSON(&stGen)
	bondedCoins := sdk.NewCoins(sdk.NewCoin(stGen.Params.BondDenom, bonded))
	balances = append(balances, banktypes.Balance{Address: authtypes.NewModuleAddress(stakingtypes.NotBondedPoolName).String(), Coins: bondedCoins})
	supply = supply.Add(bondedCoins...)

	var bankGen banktypes.GenesisState
	cdc.MustUnmarshalJSON(gs[banktypes.ModuleName], &bankGen) // keeps Paloma's default denom metadata (ugrain) and params
	bankGen.Balances = append(bankGen.Balances, balances...)
	bankGen.Supply = bankGen.Supply.Add(supply...)
	gs[banktypes.ModuleName] = cdc.MustMarshalJSON(&bankGen)

	if o.Genesis != nil {
		o.Genesis(cdc, gs)
	}
	stateBytes, err := json.Marshal(gs)
	must(err)
	_, err = a.InitChain(&abci.RequestInitChain{
		ChainId: o.ChainID, Time: o.GenTime, InitialHeight: 1,
		ConsensusParams: simtestutil.DefaultConsensusParams, AppStateBytes: stateBytes,
	})
	must(err)
	// the genesis validator set validates blocks 1 and 2
	var set []abci.Validator
	for i := range e.Vals {
		set = append(set, abci.Validator{Address: e.Vals[i].ConsAddr(), Power: e.Vals[i].Power})
	}
	e.sets[1], e.sets[2] = set, set
	return e
}

// Close removes the home directory. The app must not be used afterwards.
func (e *E2) Close() {
	if e.closed {
		return
	}
	e.closed = true
	_ = e.App.Close()
	_ = os.RemoveAll(e.home)
}

// Header is the header of the last committed block (genesis before block 1).
func (e *E2) Header() cmtproto.Header {
	return cmtproto.Header{ChainID: e.ChainID, Height: e.Height, Time: e.Time}
}

// Ctx returns an uncached context on the committed state at the current height. Reads see the state
// after the last Commit; writes through it (set-up only!) become part of the next block's state.
func (e *E2) Ctx() sdk.Context {
	return e.App.NewUncachedContext(false, e.Header())
}

// User returns the i-th funded user account (0-based); Acc the i-th account over validators+users.
func (e *E2) User(i int) *Account { return &e.Accounts[e.nVals+i] }
func (e *E2) Acc(i int) *Account  { return &e.Accounts[i] }

// NumUsers is the number of funded user accounts.
func (e *E2) NumUsers() int { return len(e.Accounts) - e.nVals }

// AccountOf finds the harness account of an address (nil if unknown).
func (e *E2) AccountOf(addr sdk.AccAddress) *Account { return e.byAddr[string(addr)] }

// Balance / Supply / AllBalances read the bank keeper on the committed state.
func (e *E2) Balance(addr sdk.AccAddress, denom string) math.Int {
	return e.App.BankKeeper.GetBalance(e.Ctx(), addr, denom).Amount
}
func (e *E2) AllBalances(addr sdk.AccAddress) sdk.Coins {
	return e.App.BankKeeper.GetAllBalances(e.Ctx(), addr)
}
func (e *E2) Supply(denom string) math.Int { return e.App.BankKeeper.GetSupply(e.Ctx(), denom).Amount }
func (e *E2) ModuleBalance(module, denom string) math.Int {
	return e.Balance(authtypes.NewModuleAddress(module), denom)
}

// Setup runs keeper-level set-up on the uncached context (what only governance / genesis could do on a
// live chain); the writes are committed with the next block. List such set-up in the evidence assumptions.
func (e *E2) Setup(f func(ctx sdk.Context) error) error { return f(e.Ctx()) }

// syncAccounts re-reads account number and sequence of every harness account from state.
func (e *E2) syncAccounts() {
	ctx := e.Ctx()
	for i := range e.Accounts {
		if acc := e.App.AccountKeeper.GetAccount(ctx, e.Accounts[i].Addr); acc != nil {
			e.Accounts[i].Num, e.Accounts[i].Seq = acc.GetAccountNumber(), acc.GetSequence()
		}
	}
}

// SignTx builds a really signed transaction (SIGN_MODE_DIRECT, no fee) of acc carrying msgs, using the
// tracked account number and sequence. The local sequence is advanced so that several txs of one account can
// go into one block; after every block the sequence is re-read from state (a tx that failed in ante did not
// consume its sequence).
func (e *E2) SignTx(acc *Account, msgs ...sdk.Msg) []byte {
	bz, err := e.SignTxWith([]*Account{acc}, msgs...)
	must(err)
	return bz
}

// SignTxWith signs with several accounts (multi-signer messages); signers in the order the tx expects them.
func (e *E2) SignTxWith(signers []*Account, msgs ...sdk.Msg) ([]byte, error) {
	var nums, seqs []uint64
	var privs []ccrypto.PrivKey
	for _, s := range signers {
		nums, seqs, privs = append(nums, s.Num), append(seqs, s.Seq), append(privs, s.Priv)
	}
	tx, err := simtestutil.GenSignedMockTx(e.rnd, e.App.TxConfig(), msgs, sdk.NewCoins(), e.Opts.Gas, e.ChainID, nums, seqs, privs...)
	if err != nil {
		return nil, err
	}
	bz, err := e.App.TxConfig().TxEncoder()(tx)
	if err != nil {
		return nil, err
	}
	for _, s := range signers {
		s.Seq++
	}
	return bz, nil
}

// DeliverBlock runs FinalizeBlock at Height+1 (time = Time + BlockTime, every validator of the current set
// signed the last commit, proposer rotates deterministically) and commits. A panic anywhere in the block is
// recovered and returned as an error with the stack; the app must be dropped after such an error.
func (e *E2) DeliverBlock(txs [][]byte) (res *abci.ResponseFinalizeBlock, err error) {
	defer func() {
		if r := recover(); r != nil {
			res, err = nil, fmt.Errorf("panic in block %d: %v\n%s", e.Height+1, r, debug.Stack())
		}
	}()
	h := e.Height + 1
	t := e.Time.Add(e.Opts.BlockTime)
	cur := e.sets[h]
	prev := e.sets[h-1] // who signed block h-1 (nil for the first block)
	var votes []abci.VoteInfo
	for _, v := range prev {
		votes = append(votes, abci.VoteInfo{Validator: v, BlockIdFlag: cmtproto.BlockIDFlagCommit})
	}
	var proposer []byte
	if len(cur) > 0 {
		proposer = cur[int(h)%len(cur)].Address
	}
	hash := make([]byte, 32)
	for i := 0; i < 8; i++ {
		hash[i] = byte(h >> (8 * i))
	}
	res, err = e.App.FinalizeBlock(&abci.RequestFinalizeBlock{
		Height: h, Time: t, Txs: txs, ProposerAddress: proposer, Hash: hash,
		DecidedLastCommit: abci.CommitInfo{Round: 0, Votes: votes},
	})
	if err != nil {
		return nil, fmt.Errorf("FinalizeBlock %d: %w", h, err)
	}
	if _, err = e.App.Commit(); err != nil {
		return nil, fmt.Errorf("Commit %d: %w", h, err)
	}
	// validator updates returned at h take effect at h+2
	if _, ok := e.sets[h+1]; !ok {
		e.sets[h+1] = cur
	}
	e.sets[h+2] = applyUpdates(e.sets[h+1], res.ValidatorUpdates)
	delete(e.sets, h-2)
	e.Height, e.Time, e.LastRes = h, t, res
	e.syncAccounts()
	return res, nil
}

func applyUpdates(set []abci.Validator, ups []abci.ValidatorUpdate) []abci.Validator {
	if len(ups) == 0 {
		return set
	}
	m := map[string]abci.Validator{}
	for _, v := range set {
		m[string(v.Address)] = v
	}
	for _, u := range ups {
		pk := u.PubKey.GetEd25519()
		addr := (&ed25519.PubKey{Key: pk}).Address()
		if u.Power == 0 {
			delete(m, string(addr))
		} else {
			m[string(addr)] = abci.Validator{Address: addr, Power: u.Power}
		}
	}
	out := make([]abci.Validator, 0, len(m))
	for _, v := range m {
		out = append(out, v)
	}
	sort.Slice(out, func(i, j int) bool { return string(out[i].Address) < string(out[j].Address) })
	return out
}

// EmptyBlocks delivers n blocks without transactions.
func (e *E2) EmptyBlocks(n int) error {
	for i := 0; i < n; i++ {
		if _, err := e.DeliverBlock(nil); err != nil {
			return err
		}
	}
	return nil
}

// RunTo delivers empty blocks until Height == h.
func (e *E2) RunTo(h int64) error {
	for e.Height < h {
		if _, err := e.DeliverBlock(nil); err != nil {
			return err
		}
	}
	return nil
}

// RunAs signs msgs as one tx of acc, delivers it alone in its own block and returns its result
// (Code 0 = included and executed; Codespace/Code/Log otherwise). err is only set for block-level failures.
func (e *E2) RunAs(acc *Account, msgs ...sdk.Msg) (*abci.ExecTxResult, error) {
	return e.RunTx(e.SignTx(acc, msgs...))
}

// RunTx delivers one raw tx in its own block.
func (e *E2) RunTx(tx []byte) (*abci.ExecTxResult, error) {
	res, err := e.DeliverBlock([][]byte{tx})
	if err != nil {
		return nil, err
	}
	if len(res.TxResults) != 1 {
		return nil, fmt.Errorf("expected 1 tx result, got %d", len(res.TxResults))
	}
	return res.TxResults[0], nil
}

// AppHash of the last commit (bit-identity checks between twin runs).
func (e *E2) AppHash() []byte { return e.App.LastCommitID().Hash }
