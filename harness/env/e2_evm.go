package env

// EVM target chains on E2 (full app): adds chains to x/evm, gives every genesis validator an external
// account (+ optional MEV trait), relayer fees, a keep-alive and metrix records, builds the valset snapshot
// and activates the chains with a compass, so that
//   - x/evm can pick relayers (scheduler jobs, valset updates, skyway batches),
//   - x/skyway tallies claims for the chain (latest compass id + nonces are set by the activation event).
//
// Everything here is set-up through keepers on the uncached context (what governance proposals
// [AddChainProposal / compass deployment attestation], pigeons' MsgAddExternalChainInfoForValidator,
// MsgUpsertRelayerFee and MsgKeepAlive do on a live chain); callers must list it in their evidence assumptions.
// The writes are committed by the block AddEvmChains delivers at its end.

import (
	"crypto/ecdsa"
	"fmt"
	"math/big"

	"cosmossdk.io/math"
	sdk "github.com/cosmos/cosmos-sdk/types"
	"github.com/ethereum/go-ethereum/common"
	"github.com/ethereum/go-ethereum/crypto"
	evmtypes "github.com/palomachain/paloma/v2/x/evm/types"
	treasurytypes "github.com/palomachain/paloma/v2/x/treasury/types"
	valsettypes "github.com/palomachain/paloma/v2/x/valset/types"
)

// EvmChainSpec describes one EVM chain of the world.
type EvmChainSpec struct {
	RefID       string // chain reference id ("eth-main", ...)
	ChainID     uint64 // EVM chain id (must be unique); default 1000 + index
	Inactive    bool   // add the chain but do not activate it (no compass)
	CompassID   string // smart contract unique id of the active compass; default "compass-<RefID>-1"
	CompassAddr string // compass address; default 0x00..c0de<index>
	MEV         []int  // indices of validators whose account on this chain carries the MEV trait
	NoFee       []int  // indices of validators WITHOUT a relayer fee record for this chain
	AllNoFee    bool   // no validator has a relayer fee record for this chain
	Unsynced    bool   // the chain still runs on the PREVIOUS snapshot (the one block 1 built): x/evm issues a just-in-time UpdateValset with the next logic call
}

// EvmWorld is what AddEvmChains built.
type EvmWorld struct {
	Chains     []EvmChainSpec
	EthKeys    []*ecdsa.PrivateKey // per genesis validator: key of its external account (same on every chain)
	EthAddrs   []common.Address
	SnapshotID uint64
}

// CompassOf returns the active compass id of a chain ("" for inactive / unknown chains).
func (w *EvmWorld) CompassOf(ref string) string {
	for _, c := range w.Chains {
		if c.RefID == ref && !c.Inactive {
			return c.CompassID
		}
	}
	return ""
}

func hasIdx(xs []int, i int) bool {
	for _, x := range xs {
		if x == i {
			return true
		}
	}
	return false
}

// PigeonVersion is the version the helper reports in the validators' keep-alive.
const PigeonVersion = "v99.0.0"

// AddEvmChains adds the chains, registers every genesis validator as a relayer on all of them, builds a
// valset snapshot that contains the external accounts, activates the chains and delivers one block.
// It must be called on a chain that has delivered at least one block (validators bonded).
func (e *E2) AddEvmChains(specs ...EvmChainSpec) (*EvmWorld, error) {
	if e.Height < 1 {
		if _, err := e.DeliverBlock(nil); err != nil {
			return nil, err
		}
	}
	w := &EvmWorld{}
	for i := range specs {
		s := specs[i]
		if s.ChainID == 0 {
			s.ChainID = uint64(1000 + i)
		}
		if s.CompassID == "" {
			s.CompassID = "compass-" + s.RefID + "-1"
		}
		if s.CompassAddr == "" {
			s.CompassAddr = fmt.Sprintf("0x%040x", 0xc0de00+i)
		}
		w.Chains = append(w.Chains, s)
	}
	for i := range e.Vals {
		k, err := crypto.ToECDSA(crypto.Keccak256([]byte(fmt.Sprintf("verif-e2-val-eth-%d-%d", e.Opts.Seed, i))))
		if err != nil {
			return nil, err
		}
		w.EthKeys = append(w.EthKeys, k)
		w.EthAddrs = append(w.EthAddrs, crypto.PubkeyToAddress(k.PublicKey))
	}
	err := e.Setup(func(ctx sdk.Context) error {
		a := e.App
		for _, s := range w.Chains {
			if err := a.EvmKeeper.AddSupportForNewChain(ctx, s.RefID, s.ChainID, 123, "0x1234", big.NewInt(55)); err != nil {
				return fmt.Errorf("add chain %s: %w", s.RefID, err)
			}
		}
		for i := range e.Vals {
			v := &e.Vals[i]
			var infos []*valsettypes.ExternalChainInfo
			var fees []treasurytypes.RelayerFeeSetting_FeeSetting
			for _, s := range w.Chains {
				info := &valsettypes.ExternalChainInfo{ChainType: "evm", ChainReferenceID: s.RefID,
					Address: w.EthAddrs[i].Hex(), Pubkey: w.EthAddrs[i].Bytes(), Balance: "1000000000000000000"}
				if hasIdx(s.MEV, i) {
					info.Traits = []string{valsettypes.PIGEON_TRAIT_MEV}
				}
				infos = append(infos, info)
				if !s.AllNoFee && !hasIdx(s.NoFee, i) {
					fees = append(fees, treasurytypes.RelayerFeeSetting_FeeSetting{Multiplicator: math.LegacyMustNewDecFromStr("1.10"), ChainReferenceId: s.RefID})
				}
			}
			if err := a.ValsetKeeper.AddExternalChainInfo(ctx, v.ValAddr, infos); err != nil {
				return fmt.Errorf("external chain infos of validator %d: %w", i, err)
			}
			if err := a.TreasuryKeeper.SetRelayerFee(ctx, v.ValAddr, &treasurytypes.RelayerFeeSetting{ValAddress: v.ValAddr.String(), Fees: fees}); err != nil {
				return fmt.Errorf("relayer fee of validator %d: %w", i, err)
			}
			if err := a.ValsetKeeper.KeepValidatorAlive(ctx, v.ValAddr, PigeonVersion); err != nil {
				return fmt.Errorf("keep alive of validator %d: %w", i, err)
			}
		}
		// the snapshot listeners (x/evm, x/metrix) run: metrix creates the validators' records (feature set)
		snap, err := a.ValsetKeeper.TriggerSnapshotBuild(ctx)
		if err != nil {
			return fmt.Errorf("snapshot: %w", err)
		}
		if snap == nil {
			return fmt.Errorf("snapshot with the external accounts was not considered worthy")
		}
		if len(snap.Validators) != len(e.Vals) {
			return fmt.Errorf("snapshot holds %d of %d validators", len(snap.Validators), len(e.Vals))
		}
		w.SnapshotID = snap.Id
		a.MetrixKeeper.UpdateUptime(ctx)
		for _, s := range w.Chains {
			if s.Inactive {
				continue
			}
			// what the attestation of the compass deployment does; publishes EVMActivatedChain
			// (x/skyway: latest compass id, nonces reset to 0)
			if err := a.EvmKeeper.ActivateChainReferenceID(ctx, s.RefID, &evmtypes.SmartContract{Id: 1}, s.CompassAddr, []byte(s.CompassID)); err != nil {
				return fmt.Errorf("activate %s: %w", s.RefID, err)
			}
			// what the attestation of an UpdateValset message does
			pub := snap.Id
			if s.Unsynced {
				if pub < 2 {
					return fmt.Errorf("chain %s: no previous snapshot to leave published", s.RefID)
				}
				pub--
			}
			if err := a.ValsetKeeper.SetSnapshotOnChain(ctx, pub, s.RefID); err != nil {
				return fmt.Errorf("snapshot on chain %s: %w", s.RefID, err)
			}
		}
		return nil
	})
	if err != nil {
		return nil, err
	}
	if _, err := e.DeliverBlock(nil); err != nil {
		return nil, err
	}
	return w, nil
}
