package env

import (
	"context"
	"fmt"

	sdk "github.com/cosmos/cosmos-sdk/types"
	bankkeeper "github.com/cosmos/cosmos-sdk/x/bank/keeper"
	bank "github.com/cosmos/cosmos-sdk/x/bank/types"

	evmkeeper "github.com/palomachain/paloma/v2/x/evm/keeper"
	evmtypes "github.com/palomachain/paloma/v2/x/evm/types"
	skywaytypes "github.com/palomachain/paloma/v2/x/skyway/types"
)

// Fault arms a proxy: the K-th (1-based) fallible call made through it while armed fails.
// Calls are counted across both proxies of an environment in the order they are made, so a
// dry run (K = 0) measures how many fault points an operation has.
type Fault struct {
	K       int      // 0 = count only
	Miss    bool     // the K-th call, when it is a lookup returning (value, found, error), reports "not found" instead of an error
	Lookups []int    // indices (1-based) of the lookup calls seen
	Calls   int      // calls seen since Arm
	Fired   string   // name of the method that failed
	Log     []string // names of the calls seen
}

type faultable struct{ f *Fault }

func (p *faultable) hit(name string) error {
	if p.f == nil {
		return nil
	}
	p.f.Calls++
	p.f.Log = append(p.f.Log, name)
	if p.f.K != 0 && p.f.Calls == p.f.K {
		p.f.Fired = name
		return fmt.Errorf("verif: injected fault at call %d (%s)", p.f.K, name)
	}
	return nil
}

// hitLookup is hit for lookups with a found flag: miss = true asks the proxy to answer "not found".
func (p *faultable) hitLookup(name string) (miss bool, err error) {
	if p.f != nil {
		p.f.Lookups = append(p.f.Lookups, p.f.Calls+1)
	}
	err = p.hit(name)
	if err != nil && p.f.Miss {
		return true, nil
	}
	return false, err
}

// BankProxy forwards to the real bank keeper; mutating / fallible methods are fault points.
type BankProxy struct {
	Real bankkeeper.BaseKeeper
	faultable
}

// EvmProxy forwards to the real evm keeper.
type EvmProxy struct {
	Real *evmkeeper.Keeper
	faultable
}

// Arm installs one fault counter on both proxies.
func (e *E1) Arm(k int) *Fault {
	f := &Fault{K: k}
	e.BankProxy.f = f
	e.EvmProxy.f = f
	return f
}

// ArmMiss is Arm with the "not found" answer for lookups (other calls fail as usual).
func (e *E1) ArmMiss(k int) *Fault {
	f := e.Arm(k)
	f.Miss = true
	return f
}

// Disarm removes it.
func (e *E1) Disarm() { e.BankProxy.f = nil; e.EvmProxy.f = nil }

var _ skywaytypes.BankKeeper = (*BankProxy)(nil)
var _ skywaytypes.EVMKeeper = (*EvmProxy)(nil)

func (b *BankProxy) GetSupply(ctx context.Context, denom string) sdk.Coin {
	return b.Real.GetSupply(ctx, denom)
}
func (b *BankProxy) SendCoinsFromModuleToAccount(ctx context.Context, m string, r sdk.AccAddress, amt sdk.Coins) error {
	if err := b.hit("bank.SendCoinsFromModuleToAccount"); err != nil {
		return err
	}
	return b.Real.SendCoinsFromModuleToAccount(ctx, m, r, amt)
}
func (b *BankProxy) SendCoinsFromAccountToModule(ctx context.Context, s sdk.AccAddress, m string, amt sdk.Coins) error {
	if err := b.hit("bank.SendCoinsFromAccountToModule"); err != nil {
		return err
	}
	return b.Real.SendCoinsFromAccountToModule(ctx, s, m, amt)
}
func (b *BankProxy) SendCoinsFromModuleToModule(ctx context.Context, s, r string, amt sdk.Coins) error {
	if err := b.hit("bank.SendCoinsFromModuleToModule"); err != nil {
		return err
	}
	return b.Real.SendCoinsFromModuleToModule(ctx, s, r, amt)
}
func (b *BankProxy) MintCoins(ctx context.Context, name string, amt sdk.Coins) error {
	if err := b.hit("bank.MintCoins"); err != nil {
		return err
	}
	return b.Real.MintCoins(ctx, name, amt)
}
func (b *BankProxy) BurnCoins(ctx context.Context, name string, amt sdk.Coins) error {
	if err := b.hit("bank.BurnCoins"); err != nil {
		return err
	}
	return b.Real.BurnCoins(ctx, name, amt)
}
func (b *BankProxy) GetAllBalances(ctx context.Context, addr sdk.AccAddress) sdk.Coins {
	return b.Real.GetAllBalances(ctx, addr)
}
func (b *BankProxy) GetDenomMetaData(ctx context.Context, denom string) (bank.Metadata, bool) {
	return b.Real.GetDenomMetaData(ctx, denom)
}
func (b *BankProxy) SetDenomMetaData(ctx context.Context, md bank.Metadata) {
	b.Real.SetDenomMetaData(ctx, md)
}
func (b *BankProxy) GetBalance(ctx context.Context, addr sdk.AccAddress, denom string) sdk.Coin {
	return b.Real.GetBalance(ctx, addr, denom)
}
func (b *BankProxy) IsSendEnabledCoins(ctx context.Context, coins ...sdk.Coin) error {
	return b.Real.IsSendEnabledCoins(ctx, coins...)
}
func (b *BankProxy) SendCoins(ctx context.Context, from, to sdk.AccAddress, amt sdk.Coins) error {
	if err := b.hit("bank.SendCoins"); err != nil {
		return err
	}
	return b.Real.SendCoins(ctx, from, to, amt)
}

func (p *EvmProxy) GetChainInfo(ctx context.Context, c string) (*evmtypes.ChainInfo, error) {
	if err := p.hit("evm.GetChainInfo"); err != nil {
		return nil, err
	}
	return p.Real.GetChainInfo(ctx, c)
}
func (p *EvmProxy) PickValidatorForMessage(ctx context.Context, c string, req *skywaytypes.VerifJobRequirements) (string, string, error) {
	if err := p.hit("evm.PickValidatorForMessage"); err != nil {
		return "", "", err
	}
	return p.Real.PickValidatorForMessage(ctx, c, req)
}
func (p *EvmProxy) GetEthAddressByValidator(ctx context.Context, v sdk.ValAddress, c string) (*skywaytypes.EthAddress, bool, error) {
	if miss, err := p.hitLookup("evm.GetEthAddressByValidator"); err != nil || miss {
		return nil, false, err
	}
	return p.Real.GetEthAddressByValidator(ctx, v, c)
}
func (p *EvmProxy) GetValidatorAddressByEthAddress(ctx context.Context, a skywaytypes.EthAddress, c string) (sdk.ValAddress, bool, error) {
	if miss, err := p.hitLookup("evm.GetValidatorAddressByEthAddress"); err != nil || miss {
		return nil, false, err
	}
	return p.Real.GetValidatorAddressByEthAddress(ctx, a, c)
}
func (p *EvmProxy) HasAnySmartContractDeployment(ctx context.Context, c string) bool {
	return p.Real.HasAnySmartContractDeployment(ctx, c)
}
func (p *EvmProxy) GetActiveChainNames(ctx context.Context) []string {
	return p.Real.GetActiveChainNames(ctx)
}
