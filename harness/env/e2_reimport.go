package env

// Reimport for E2 (property C03, perturbation "Reimport" of specs/Auth.tla): the genesis round trip of the WHOLE
// application. The committed state is exported with app.ExportAppStateAndValidators (ExportGenesis of every
// module, not for zero height), the application is dropped, a new one is created on a FRESH database and
// InitChain is run on the exported state (InitGenesis of every module) with the exported validators and consensus
// parameters, initial height = exported height. Accounts, validator bookkeeping and time of the harness carry over.
// The imported state becomes visible to Ctx() with the next block (InitChain state is committed with the first block).

import (
	"fmt"
	"os"

	abci "github.com/cometbft/cometbft/abci/types"
	cryptoenc "github.com/cometbft/cometbft/crypto/encoding"
	dbm "github.com/cosmos/cosmos-db"
)

// Reimport replaces the running application by a fresh one initialised from its own genesis export.
func (e *E2) Reimport() (err error) {
	if e.closed {
		return fmt.Errorf("reimport of a closed E2")
	}
	defer func() {
		if r := recover(); r != nil {
			err = fmt.Errorf("reimport panicked: %v", r)
		}
	}()
	exp, err := e.App.ExportAppStateAndValidators(false, nil, nil)
	if err != nil {
		return fmt.Errorf("export: %w", err)
	}
	home, err := os.MkdirTemp("", "verif-e2-")
	if err != nil {
		return err
	}
	_ = e.App.Close()
	a, err := newAppOn(dbm.NewMemDB(), home, e.ChainID)
	if err != nil {
		_ = os.RemoveAll(home)
		return err
	}
	var vals []abci.ValidatorUpdate
	for _, v := range exp.Validators {
		pk, err := cryptoenc.PubKeyToProto(v.PubKey)
		if err != nil {
			_ = os.RemoveAll(home)
			return err
		}
		vals = append(vals, abci.ValidatorUpdate{PubKey: pk, Power: v.Power})
	}
	cp := exp.ConsensusParams
	if _, err = a.InitChain(&abci.RequestInitChain{ChainId: e.ChainID, Time: e.Time, InitialHeight: e.Height + 1,
		ConsensusParams: &cp, AppStateBytes: exp.AppState, Validators: vals}); err != nil {
		_ = os.RemoveAll(home)
		return fmt.Errorf("InitChain on the exported state: %w", err)
	}
	_ = os.RemoveAll(e.home)
	e.App, e.home = a, home
	return nil
}
