package env

// Contract callers on E2 without a wasm VM: the message router a contract's CosmosMsg::Custom reaches after the
// VM returned it is rebuilt exactly as app.buildWasmMessageDecorator builds it (that function and the app's
// wasm keeper are unexported) from the app's own keepers and msg servers, and driven directly.

import (
	"cosmossdk.io/log"
	wasmkeeper "github.com/CosmWasm/wasmd/x/wasm/keeper"
	wasmvmtypes "github.com/CosmWasm/wasmvm/v2/types"
	sdk "github.com/cosmos/cosmos-sdk/types"
	bankkeeper "github.com/cosmos/cosmos-sdk/x/bank/keeper"
	"github.com/palomachain/paloma/v2/util/libwasm"
	schedulerbindings "github.com/palomachain/paloma/v2/x/scheduler/bindings"
	schedulerkeeper "github.com/palomachain/paloma/v2/x/scheduler/keeper"
	skywaybindings "github.com/palomachain/paloma/v2/x/skyway/bindings"
	skywaykeeper "github.com/palomachain/paloma/v2/x/skyway/keeper"
	tokenfactorybindings "github.com/palomachain/paloma/v2/x/tokenfactory/bindings"
)

// WasmRouter returns Paloma's custom-message router over the app's keepers (wrapped messenger: none, so only
// custom messages can be dispatched).
func (e *E2) WasmRouter() wasmkeeper.Messenger {
	a := e.App
	bbk, ok := a.BankKeeper.(bankkeeper.BaseKeeper)
	if !ok {
		panic("bankkeeper is not a BaseKeeper")
	}
	srv := schedulerkeeper.NewMsgServerImpl(&a.SchedulerKeeper)
	skwSrv := skywaykeeper.NewMsgServerImpl(a.SkywayKeeper)
	return libwasm.NewRouterMessageDecorator(
		log.NewNopLogger(),
		schedulerbindings.NewLegacyMessenger(&a.SchedulerKeeper),
		schedulerbindings.NewMessenger(&a.SchedulerKeeper, srv),
		skywaybindings.NewMessenger(skwSrv),
		tokenfactorybindings.NewMessenger(&bbk, &a.TokenFactoryKeeper),
	)(nil)
}

// DispatchAsContract hands one CosmosMsg::Custom of the contract at `contract` to the router the way x/wasm does
// while executing a contract inside a transaction: on a branch of the state that is written only if the
// dispatch succeeds (a failing message fails the contract call and with it the transaction). The result is
// committed by delivering the next block (whose begin/end blockers run as usual). The returned error is the
// dispatch error; blockErr reports a block-level failure.
func (e *E2) DispatchAsContract(router wasmkeeper.Messenger, contract sdk.AccAddress, custom []byte) (err error, blockErr error) {
	ctx := e.Ctx().WithEventManager(sdk.NewEventManager())
	cc, write := ctx.CacheContext()
	_, _, _, err = router.DispatchMsg(cc, contract, "", wasmvmtypes.CosmosMsg{Custom: custom})
	if err == nil {
		write()
	}
	_, blockErr = e.DeliverBlock(nil)
	return err, blockErr
}
