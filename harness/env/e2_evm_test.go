//go:build verif

package env

import (
	"fmt"
	"testing"

	consensustypes "github.com/palomachain/paloma/v2/x/consensus/types"
	evmtypes "github.com/palomachain/paloma/v2/x/evm/types"
	schedulertypes "github.com/palomachain/paloma/v2/x/scheduler/types"
	valsettypes "github.com/palomachain/paloma/v2/x/valset/types"
)

// TestE2EvmChains: after AddEvmChains a signed MsgExecuteJob reaches the turnstone queue of an active chain,
// x/skyway knows the compass, and the validators survive the jail-check heights.
func TestE2EvmChains(t *testing.T) {
	e := NewE2(E2Options{Seed: 1, Powers: []int64{10, 10, 10}, NumUsers: 2})
	defer e.Close()
	w, err := e.AddEvmChains(
		EvmChainSpec{RefID: "eth-main", MEV: []int{0}, Unsynced: true},
		EvmChainSpec{RefID: "bnb-main"},
		EvmChainSpec{RefID: "matic-main", AllNoFee: true},
		EvmChainSpec{RefID: "op-main", Inactive: true},
	)
	if err != nil {
		t.Fatal(err)
	}
	ctx := e.Ctx()
	snap, err := e.App.ValsetKeeper.GetCurrentSnapshot(ctx)
	if err != nil || snap == nil || snap.Id != w.SnapshotID || len(snap.Validators) != 3 {
		t.Fatalf("snapshot %v %v", snap, err)
	}
	if got := e.App.EvmKeeper.GetActiveChainNames(ctx); len(got) != 3 {
		t.Fatalf("active chains %v", got)
	}
	if cid := e.App.SkywayKeeper.GetLatestCompassID(ctx, "eth-main"); cid != w.CompassOf("eth-main") {
		t.Fatalf("compass id %q", cid)
	}
	u := e.User(0)
	md := func() valsettypes.MsgMetadata {
		return valsettypes.MsgMetadata{Creator: u.Bech32(), Signers: []string{u.Bech32()}}
	}
	mk := func(id, chain string, mev bool) *schedulertypes.MsgCreateJob {
		return &schedulertypes.MsgCreateJob{Metadata: md(), Job: &schedulertypes.Job{ID: id,
			Routing:    schedulertypes.Routing{ChainType: "evm", ChainReferenceID: chain},
			Definition: []byte(`{"abi":"[]","address":"0x00000000000000000000000000000000000000aa"}`),
			Payload:    []byte(`{"hexPayload":"0102"}`), EnforceMEVRelay: mev}}
	}
	for _, c := range []struct {
		id, chain string
		mev, ok   bool
	}{{"j1", "eth-main", true, true}, {"j2", "bnb-main", true, false}, {"j3", "matic-main", false, false}, {"j4", "op-main", false, true}, {"j5", "nochain", false, false}} {
		r, err := e.RunAs(u, mk(c.id, c.chain, c.mev))
		if err != nil || r.Code != 0 {
			t.Fatalf("create %s: %v %v", c.id, r, err)
		}
		r, err = e.RunAs(u, &schedulertypes.MsgExecuteJob{Metadata: md(), JobID: c.id})
		if err != nil {
			t.Fatal(err)
		}
		t.Logf("execute %s on %s (mev=%v): code %d/%s %s", c.id, c.chain, c.mev, r.Code, r.Codespace, r.Log)
		if (r.Code == 0) != c.ok {
			t.Errorf("execute %s: code %d, expected ok=%v", c.id, r.Code, c.ok)
		}
		if c.chain == "nochain" {
			continue
		}
		msgs, err := e.App.ConsensusKeeper.GetMessagesFromQueue(e.Ctx(), consensustypes.Queue(evmtypes.ConsensusTurnstoneMessage, "evm", c.chain), 0)
		if err != nil {
			t.Fatal(err)
		}
		kinds := map[string]int{}
		for _, m := range msgs {
			cm, err := m.ConsensusMsg(e.App.AppCodec())
			if err != nil {
				t.Fatal(err)
			}
			mm := cm.(*evmtypes.Message)
			kinds[fmt.Sprintf("%T", mm.Action)]++
			t.Logf("  queue %s: id %d %T turnstone=%q assignee=%s", c.chain, m.GetId(), mm.Action, mm.TurnstoneID, mm.Assignee)
		}
		// the chain left on the previous snapshot gets its just-in-time valset update with the first logic call
		if c.chain == "eth-main" && (kinds["*types.Message_UpdateValset"] != 1 || kinds["*types.Message_SubmitLogicCall"] != 1) {
			t.Errorf("eth-main queue: %v", kinds)
		}
	}
	if err := e.RunTo(75); err != nil {
		t.Fatal(err)
	}
	vals, _ := e.App.StakingKeeper.GetBondedValidatorsByPower(e.Ctx())
	if len(vals) != 3 {
		t.Fatalf("bonded validators at height %d: %d", e.Height, len(vals))
	}
}
