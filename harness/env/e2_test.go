//go:build verif

package env

import (
	"bytes"
	"testing"
	"time"

	sdk "github.com/cosmos/cosmos-sdk/types"
	banktypes "github.com/cosmos/cosmos-sdk/x/bank/types"
)

func runE2Once(t *testing.T) (hash []byte, tNew, tBlock time.Duration) {
	t0 := time.Now()
	e := NewE2(E2Options{Seed: 1, Powers: []int64{10, 10, 10}, NumUsers: 3})
	tNew = time.Since(t0)
	defer e.Close()
	if len(e.Vals) != 3 || e.NumUsers() != 3 {
		t.Fatal("accounts")
	}
	// a transaction in the very first block (account numbers known from genesis)
	c := e.User(2)
	r0, err := e.RunAs(c, banktypes.NewMsgSend(c.Addr, e.User(0).Addr, sdk.NewCoins(sdk.NewInt64Coin(BondDenom, 1))))
	if err != nil || r0.Code != 0 || c.Num != uint64(e.nVals+2) {
		t.Fatalf("tx in block 1: %v %v num=%d", r0, err, c.Num)
	}
	t1 := time.Now()
	for i := 0; i < 3; i++ {
		res, err := e.DeliverBlock(nil)
		if err != nil {
			t.Fatalf("empty block %d: %v", i+1, err)
		}
		if len(res.TxResults) != 0 {
			t.Fatal("tx results in empty block")
		}
	}
	tBlock = time.Since(t1) / 3
	// validators are really bonded
	vals, err := e.App.StakingKeeper.GetBondedValidatorsByPower(e.Ctx())
	if err != nil || len(vals) != 3 {
		t.Fatalf("bonded validators: %v %v", len(vals), err)
	}
	snap, err := e.App.ValsetKeeper.GetCurrentSnapshot(e.Ctx())
	t.Logf("valset snapshot after 3 blocks: %v err=%v", snap != nil, err)
	a, b := e.User(0), e.User(1)
	before := e.Balance(b.Addr, BondDenom)
	r, err := e.RunAs(a, banktypes.NewMsgSend(a.Addr, b.Addr, sdk.NewCoins(sdk.NewInt64Coin(BondDenom, 12345))))
	if err != nil {
		t.Fatal(err)
	}
	if r.Code != 0 {
		t.Fatalf("send failed: code %d %s %s", r.Code, r.Codespace, r.Log)
	}
	if got := e.Balance(b.Addr, BondDenom).Sub(before).Int64(); got != 12345 {
		t.Fatalf("balance moved by %d", got)
	}
	if a.Seq != 1 || e.Height != 5 {
		t.Fatalf("seq %d height %d", a.Seq, e.Height)
	}
	// a tx failing in ante (wrong sequence) does not consume the sequence
	a.Seq = 7
	r, err = e.RunAs(a, banktypes.NewMsgSend(a.Addr, b.Addr, sdk.NewCoins(sdk.NewInt64Coin(BondDenom, 1))))
	if err != nil || r.Code == 0 {
		t.Fatalf("expected ante failure, got %v %v", r, err)
	}
	if a.Seq != 1 {
		t.Fatalf("sequence after failed ante: %d", a.Seq)
	}
	// a tx failing in the message (insufficient funds) consumes it
	r, err = e.RunAs(a, banktypes.NewMsgSend(a.Addr, b.Addr, sdk.NewCoins(sdk.NewInt64Coin("nosuch", 1))))
	if err != nil || r.Code == 0 || a.Seq != 2 {
		t.Fatalf("expected msg failure with sequence 2, got %v %v seq %d", r, err, a.Seq)
	}
	if err := e.EmptyBlocks(60); err != nil { // crosses the valset snapshot / jail-check heights 50 and 60
		t.Fatal(err)
	}
	vals, _ = e.App.StakingKeeper.GetBondedValidatorsByPower(e.Ctx())
	t.Logf("bonded validators at height %d: %d", e.Height, len(vals))
	return e.AppHash(), tNew, tBlock
}

func TestE2Basics(t *testing.T) {
	h1, n1, b1 := runE2Once(t)
	h2, n2, b2 := runE2Once(t)
	t.Logf("NewE2 first %v, second %v; empty block %v / %v", n1, n2, b1, b2)
	if !bytes.Equal(h1, h2) {
		t.Fatalf("two runs differ: %x vs %x", h1, h2)
	}
}
