//go:build verif

// Driver for specs/SkywayOracle.tla: votes, tallies, power changes, nonce overrides and compass
// activation against the real skyway keeper (E1).  The claim table mirrors specs/gen/SkywayOracleGen.tla.
package oracle

import (
	"encoding/json"
	"fmt"
	"os"
	"sort"
	"strconv"
	"strings"
	"testing"

	"cosmossdk.io/math"
	"github.com/cosmos/cosmos-sdk/crypto/keys/secp256k1"
	sdk "github.com/cosmos/cosmos-sdk/types"
	stakingkeeper "github.com/cosmos/cosmos-sdk/x/staking/keeper"
	stakingtypes "github.com/cosmos/cosmos-sdk/x/staking/types"
	"github.com/palomachain/paloma/v2/util/libcons"
	evmtypes "github.com/palomachain/paloma/v2/x/evm/types"
	"github.com/palomachain/paloma/v2/x/skyway"
	skywaykeeper "github.com/palomachain/paloma/v2/x/skyway/keeper"
	st "github.com/palomachain/paloma/v2/x/skyway/types"
	valsettypes "github.com/palomachain/paloma/v2/x/valset/types"
	"verifharness/drv"
	"verifharness/env"
)

const (
	chain      = "eth-a"
	denom      = "utoka"
	goodToken  = "0x1111111111111111111111111111111111111111"
	unregToken = "0x9999999999999999999999999999999999999999"
)

// claim table (index = claim id - 1)
var (
	cNonce   = []uint64{1, 1, 2, 2, 3, 1, 2, 3}
	cCompass = []int{1, 1, 1, 1, 1, 2, 2, 1}
	cAppl    = []bool{true, true, true, false, true, true, true, true}
)

func pow3(i int) int64 {
	r := int64(1)
	for ; i > 0; i-- {
		r *= 3
	}
	return r
}

type world struct {
	e        *env.E1
	receiver sdk.AccAddress
	cc       *libcons.ConsensusChecker
	compass  map[int]string
}

type args struct {
	V   int  `json:"v"`
	C   int  `json:"c"`
	Cu  bool `json:"cu"`
	N   int  `json:"n"`
	Cid int  `json:"cid"`
	P   int  `json:"p"`
	// C11b: the voter's view differs from the canonical claim in one field that the claim hash may or may not cover
	Alt string `json:"alt"`
}

func newWorld() *world {
	powers := []int64{34, 33, 33}
	if s := os.Getenv("VERIF_ORACLE_POWERS"); s != "" { // other initial power distributions (checks/c02.py)
		powers = nil
		for _, f := range strings.Split(s, ",") {
			p, err := strconv.ParseInt(f, 10, 64)
			if err != nil {
				panic(err)
			}
			powers = append(powers, p)
		}
	}
	e := env.NewE1(env.E1Options{Seed: drv.Seed(), Chains: []string{chain}, Powers: powers})
	h := skywaykeeper.NewSkywayProposalHandler(e.Skyway)
	if err := h(e.Ctx, &st.SetERC20ToDenomProposal{Title: "t", Description: "d", ChainReferenceId: chain, Erc20: goodToken, Denom: denom}); err != nil {
		panic(err)
	}
	k := secp256k1.GenPrivKeyFromSecret([]byte(fmt.Sprintf("verif-oracle-recv-%d", drv.Seed())))
	w := &world{e: e, receiver: sdk.AccAddress(k.PubKey().Address()), compass: map[int]string{1: e.CompassID[chain], 2: "compass-eth-a-2"}}
	w.cc = libcons.New(e.Valset.GetCurrentSnapshot, e.Cdc)
	return w
}

func (w *world) claimMsg(c int, v env.Val) *st.MsgSendToPalomaClaim {
	tok := goodToken
	if !cAppl[c-1] {
		tok = unregToken
	}
	return &st.MsgSendToPalomaClaim{
		EventNonce: cNonce[c-1], EthBlockHeight: 1000 + cNonce[c-1], TokenContract: tok, Amount: math.NewInt(pow3(c - 1)),
		EthereumSender: "0x00000000000000000000000000000000000000bb", PalomaReceiver: w.receiver.String(), Orchestrator: v.Acc.String(),
		ChainReferenceId: chain, Metadata: valsettypes.MsgMetadata{Creator: v.Acc.String(), Signers: []string{v.Acc.String()}},
		SkywayNonce: cNonce[c-1], CompassId: w.compass[cCompass[c-1]],
	}
}

func (w *world) claimID(cl st.EthereumClaim) int {
	m, ok := cl.(*st.MsgSendToPalomaClaim)
	if !ok {
		return 0
	}
	a := m.Amount.Int64()
	for i := 0; i < len(cNonce); i++ {
		if pow3(i) == a {
			return i + 1
		}
	}
	return 0
}

func (w *world) valIdxByOper(oper string) int {
	for i, v := range w.e.Vals {
		if v.Val.String() == oper {
			return i + 1
		}
	}
	return 0
}

func (w *world) observe(ctx sdk.Context) map[string]any {
	e := w.e
	k := e.Skyway
	o := map[string]any{}
	last, err := k.GetLastObservedSkywayNonce(ctx, chain)
	if err != nil {
		panic(err)
	}
	o["last"] = int(last)
	leh := int(k.GetLastObservedEthereumBlockHeight(ctx, chain).EthereumBlockHeight)
	if leh >= 1000 {
		leh -= 1000
	}
	o["lastEth"] = leh
	nonceOf, power, bonded := []int{}, []int{}, []bool{}
	for _, v := range e.Vals {
		n, err := k.GetLastSkywayNonceByValidator(ctx, v.Val, chain)
		if err != nil {
			panic(err)
		}
		nonceOf = append(nonceOf, int(n))
		p, _ := e.Staking.GetLastValidatorPower(ctx, v.Val)
		power = append(power, int(p))
		val, err := e.Staking.GetValidator(ctx, v.Val)
		bonded = append(bonded, err == nil && val.IsBonded())
	}
	tp, _ := e.Staking.GetLastTotalPower(ctx)
	o["nonceOf"], o["power"], o["bonded"], o["total"] = nonceOf, power, bonded, int(tp.Int64())
	atts := []any{}
	k.IterateAttestations(ctx, chain, false, func(_ []byte, att st.Attestation) bool {
		cl, err := k.UnpackAttestationClaim(&att)
		if err != nil {
			panic(err)
		}
		votes := []int{}
		for _, vs := range att.Votes {
			votes = append(votes, w.valIdxByOper(vs))
		}
		atts = append(atts, map[string]any{"nonce": int(cl.GetSkywayNonce()), "id": w.claimID(cl), "votes": votes, "observed": att.Observed})
		return false
	})
	sort.Slice(atts, func(i, j int) bool {
		a, b := atts[i].(map[string]any), atts[j].(map[string]any)
		if a["nonce"].(int) != b["nonce"].(int) {
			return a["nonce"].(int) < b["nonce"].(int)
		}
		return a["id"].(int) < b["id"].(int)
	})
	o["atts"] = atts
	bal := e.Bank.GetBalance(ctx, w.receiver, denom).Amount.Int64()
	eff := []int{}
	for i := 0; i < len(cNonce); i++ {
		eff = append(eff, int(bal%3))
		bal /= 3
	}
	o["effects"] = eff
	o["overflow"] = int(bal)
	cid := 0
	for id, s := range w.compass {
		if s == k.GetLatestCompassID(ctx, chain) {
			cid = id
		}
	}
	o["compass"] = cid
	return o
}

func (w *world) setPower(ctx sdk.Context, v env.Val, p int64) error {
	e := w.e
	srv := stakingkeeper.NewMsgServerImpl(e.Staking)
	val, err := e.Staking.GetValidator(ctx, v.Val)
	if err != nil {
		return err
	}
	cons, err := val.GetConsAddr()
	if err != nil {
		return err
	}
	if p == 0 {
		if !val.IsJailed() {
			if err := e.Staking.Jail(ctx, cons); err != nil {
				return err
			}
		}
	} else {
		if val.IsJailed() {
			if err := e.Staking.Unjail(ctx, cons); err != nil {
				return err
			}
			val, _ = e.Staking.GetValidator(ctx, v.Val)
		}
		want := sdk.TokensFromConsensusPower(p, sdk.DefaultPowerReduction)
		have := val.Tokens
		if want.GT(have) {
			d := want.Sub(have)
			e.Fund(ctx, v.Acc, sdk.NewCoins(sdk.NewCoin(env.BondDenom, d)))
			if _, err := srv.Delegate(ctx, stakingtypes.NewMsgDelegate(v.Acc.String(), v.Val.String(), sdk.NewCoin(env.BondDenom, d))); err != nil {
				return err
			}
		} else if want.LT(have) {
			d := have.Sub(want)
			if _, err := srv.Undelegate(ctx, stakingtypes.NewMsgUndelegate(v.Acc.String(), v.Val.String(), sdk.NewCoin(env.BondDenom, d))); err != nil {
				return err
			}
		}
	}
	_, err = e.Staking.EndBlocker(ctx)
	return err
}

func TestDriveOracle(t *testing.T) {
	hs, err := drv.LoadHistories()
	if err != nil {
		t.Fatal(err)
	}
	em, err := drv.NewEmitter()
	if err != nil {
		t.Fatal(err)
	}
	defer em.Close()
	w := newWorld()
	e := w.e
	for _, h := range hs {
		ctx, _ := e.Ctx.CacheContext()
		height := int64(1001) // not a multiple of 50
		ctx = ctx.WithBlockHeight(height)
		em.Emit(map[string]any{"h": h.H, "i": 0, "act": "Init", "obs": w.observe(ctx)})
		for i, s := range h.Steps {
			var a args
			if err := json.Unmarshal(s.Args, &a); err != nil {
				t.Fatal(err)
			}
			res, errs := "ok", ""
			switch s.Act {
			case "Vote":
				v := e.Vals[a.V-1]
				m := w.claimMsg(a.C, v)
				err, _ := env.RunMsg(ctx, func(c sdk.Context) error { _, err := e.SkywayMsg.SendToPalomaClaim(c, m); return err })
				if err != nil {
					res, errs = "fail", err.Error()
				}
			case "Tally":
				height++
				if a.Cu {
					for height%50 != 0 {
						height++
					}
				} else if height%50 == 0 {
					height++
				}
				ctx = ctx.WithBlockHeight(height)
				skyway.EndBlocker(ctx, e.Skyway, w.cc)
				res = "eb"
			case "Override":
				err, _ := env.RunMsg(ctx, func(c sdk.Context) error {
					_, err := e.SkywayMsg.OverrideNonceProposal(c, &st.MsgNonceOverrideProposal{Metadata: valsettypes.MsgMetadata{Creator: e.Opts.Authority}, ChainReferenceId: chain, Nonce: uint64(a.N)})
					return err
				})
				if err != nil {
					t.Fatalf("override failed: %v", err)
				}
				res = "gov"
			case "Activate":
				if err := e.Evm.ActivateChainReferenceID(ctx, chain, &evmtypes.SmartContract{Id: uint64(a.Cid)}, "0x00000000000000000000000000000000c0de0002", []byte(w.compass[a.Cid])); err != nil {
					t.Fatalf("activate failed: %v", err)
				}
				res = "gov"
			case "Rebind":
				// governance restates the binding of the bridged token (same chain, contract, denom)
				h := skywaykeeper.NewSkywayProposalHandler(e.Skyway)
				if err := h(ctx, &st.SetERC20ToDenomProposal{Title: "t", Description: "d", ChainReferenceId: chain, Erc20: goodToken, Denom: denom}); err != nil {
					t.Fatalf("rebind failed: %v", err)
				}
				res = "gov"
			case "SetPower":
				if err := w.setPower(ctx, e.Vals[a.V-1], int64(a.P)); err != nil {
					t.Fatalf("set power failed: %v", err)
				}
				res = "stake"
			default:
				t.Fatalf("unknown action %s", s.Act)
			}
			em.Emit(map[string]any{"h": h.H, "i": i + 1, "act": s.Act, "args": json.RawMessage(s.Args), "res": res, "err": errs, "obs": w.observe(ctx)})
		}
	}
}
