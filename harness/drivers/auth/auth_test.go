//go:build verif

// Driver for specs/Auth.tla (property C03): every tuple (grant state, message kind, signer, creator, named
// principal) becomes a really signed transaction delivered alone in a block of its own through FinalizeBlock
// (ante chain incl. VerifyAuthorisedSignatureDecorator, message router, msg server) of the full application.
// A signer "Gov" is the real governance path: a proposal carrying the message, voted and executed by x/gov.
// The driver has no expectations: it records the ABCI result and the projection of the state attributed to
// A, B and the governance authority before and after the block.
package auth

import (
	"encoding/json"
	"fmt"
	"sort"
	"strings"
	"testing"
	"time"

	"cosmossdk.io/x/feegrant"
	abci "github.com/cometbft/cometbft/abci/types"
	sdk "github.com/cosmos/cosmos-sdk/types"
	govv1 "github.com/cosmos/cosmos-sdk/x/gov/types/v1"
	"verifharness/drv"
	"verifharness/env"
)

type deliverArgs struct {
	Kind string `json:"kind"`
	S    int    `json:"s"`
	C    int    `json:"c"`
	N    int    `json:"n"`
}

// grantArgs: AK is the kind of fee allowance ("" = basic): basic, periodic, amsgb / amsgp (allowed-msg allowance wrapping a
// basic / periodic one); a trailing "+" gives it an expiration one hour ahead.
type grantArgs struct {
	G  int    `json:"g"`
	E  int    `json:"e"`
	AK string `json:"ak"`
}

// allowance builds the fee allowance of a kind; exp (may be nil) is its expiration.
func allowance(ak string, exp *time.Time) (feegrant.FeeAllowanceI, error) {
	basic := &feegrant.BasicAllowance{Expiration: exp}
	periodic := &feegrant.PeriodicAllowance{Basic: feegrant.BasicAllowance{Expiration: exp}, Period: time.Hour,
		PeriodSpendLimit: sdk.NewCoins(sdk.NewInt64Coin(env.BondDenom, 1000)), PeriodCanSpend: sdk.NewCoins(sdk.NewInt64Coin(env.BondDenom, 1000))}
	allowed := []string{"/cosmos.bank.v1beta1.MsgSend"}
	switch strings.TrimSuffix(ak, "+") {
	case "", "basic":
		return basic, nil
	case "periodic":
		return periodic, nil
	case "amsgb":
		return feegrant.NewAllowedMsgAllowance(basic, allowed)
	case "amsgp":
		return feegrant.NewAllowedMsgAllowance(periodic, allowed)
	}
	return nil, fmt.Errorf("unknown allowance kind %q", ak)
}

// allowanceKind names the kind of a stored allowance.
func allowanceKind(al feegrant.FeeAllowanceI) string {
	k := "other"
	switch a := al.(type) {
	case *feegrant.BasicAllowance:
		k = "basic"
	case *feegrant.PeriodicAllowance:
		k = "periodic"
	case *feegrant.AllowedMsgAllowance:
		inner, err := a.GetAllowance()
		if err != nil {
			return "amsg?"
		}
		switch inner.(type) {
		case *feegrant.BasicAllowance:
			k = "amsgb"
		case *feegrant.PeriodicAllowance:
			k = "amsgp"
		}
	}
	return k
}

func TestDriveAuth(t *testing.T) {
	hs, err := drv.LoadHistories()
	if err != nil {
		t.Fatal(err)
	}
	em, err := drv.NewEmitter()
	if err != nil {
		t.Fatal(err)
	}
	defer em.Close()
	t0 := time.Now()
	for _, h := range hs {
		runHistory(t, em, h)
	}
	t.Logf("%d histories in %v", len(hs), time.Since(t0))
}

// deliver2Args: one transaction with two messages signed by S only: message K1 in S's own name and message K2 in
// C's name (creator = named = C); Ord = 1: the honest message first, 2: the message in C's name first.
type deliver2Args struct {
	K1  string `json:"k1"`
	K2  string `json:"k2"`
	S   int    `json:"s"`
	C   int    `json:"c"`
	Ord int    `json:"ord"`
}

// deliverKArgs: Deliver whose sender-chosen key is variant V of the key of an object N already owns.
type deliverKArgs struct {
	Kind string `json:"kind"`
	S    int    `json:"s"`
	C    int    `json:"c"`
	N    int    `json:"n"`
	V    string `json:"v"`
}

// kindOf: the kind(s) whose objects the world has to hold ("k1+k2" for a two-message transaction; the batch
// preparation has to precede the pool transfers, so a batch kind goes first).
func kindOf(steps []drv.Step) string {
	for _, s := range steps {
		if s.Act == "Deliver" {
			var a deliverArgs
			if json.Unmarshal(s.Args, &a) == nil {
				return a.Kind
			}
		}
		if s.Act == "DeliverK" {
			var a deliverKArgs
			if json.Unmarshal(s.Args, &a) == nil {
				return a.Kind + "#K"
			}
		}
		if s.Act == "Deliver2" {
			var a deliver2Args
			if json.Unmarshal(s.Args, &a) == nil {
				if a.K1 == a.K2 {
					return a.K1
				}
				if a.K1 == "SkSendToRemote" || a.K1 == "SkCancelSendToRemote" {
					return a.K2 + "+" + a.K1
				}
				return a.K1 + "+" + a.K2
			}
		}
	}
	return ""
}

// grantState: 0 = no allowance, 1 = allowance that is valid at the time of the next block, 2 = allowance still
// stored but expired at the time of the next block.
func (w *world) grantState(g, e int) int {
	al, err := w.e.App.FeeGrantKeeper.GetAllowance(w.e.Ctx(), w.addr(g), w.addr(e))
	if err != nil || al == nil {
		return 0
	}
	exp, err := al.ExpiresAt()
	if err == nil && exp != nil && !exp.After(w.e.Time.Add(w.e.Opts.BlockTime)) {
		return 2
	}
	return 1
}

func (w *world) grantObs() map[string]int {
	return map[string]int{"ab": w.grantState(pA, pB), "ba": w.grantState(pB, pA)}
}

// grantKinds: the kind of the stored allowance per direction ("-" = none; "+" = it carries an expiration that is still ahead
// at the time of the next block).
func (w *world) grantKinds() map[string]string {
	one := func(g, e int) string {
		al, err := w.e.App.FeeGrantKeeper.GetAllowance(w.e.Ctx(), w.addr(g), w.addr(e))
		if err != nil || al == nil {
			return "-"
		}
		k := allowanceKind(al)
		if exp, err := al.ExpiresAt(); err == nil && exp != nil && exp.After(w.e.Time.Add(w.e.Opts.BlockTime)) {
			k += "+"
		}
		return k
	}
	return map[string]string{"ab": one(pA, pB), "ba": one(pB, pA)}
}

func firstLine(s string) string {
	if i := strings.IndexByte(s, '\n'); i >= 0 {
		s = s[:i]
	}
	if len(s) > 200 {
		s = s[:200]
	}
	return s
}

// class of a transaction result: where it was decided.
func classify(r *abci.ExecTxResult) string {
	switch {
	case r.Code == 0:
		return "ok"
	case strings.Contains(r.Log, "no signature from granted address"), strings.Contains(r.Log, "failed to verify message signature authorisation"),
		strings.Contains(r.Log, "cannot be submitted by"):
		return "ante" // x/paloma VerifyAuthorisedSignatureDecorator
	case r.Codespace == "sdk" && (r.Code == 4 || r.Code == 8 || r.Code == 32) && !strings.Contains(r.Log, "failed to execute message"):
		return "sig" // signature verification of the sdk ante chain (wrong signer set, wrong key)
	case strings.Contains(r.Log, "unrecognized message route") || strings.Contains(r.Log, "no message handler found"):
		return "route"
	case strings.Contains(r.Log, "failed to execute message"):
		return "handler"
	}
	return "basic" // rejected before execution by the message's own ValidateBasic (baseapp.validateBasicTxMsgs)
}

func runHistory(t *testing.T, em *drv.Emitter, h drv.History) {
	steps := h.Steps
	if len(steps) > 0 && steps[0].Act == "Init" { // a replay file starts with the recorded Init
		steps = steps[1:]
	}
	if len(steps) == 1 && steps[0].Act == "Registry" {
		runRegistry(em, h)
		return
	}
	kind := kindOf(steps)
	w := newWorld(kind)
	defer w.e.Close()
	e := w.e
	in := interner{}
	// quiescence: an empty block must not change any projection (otherwise the block effects could not be told
	// from the effects of the transaction)
	q0 := w.snap(false)
	if _, err := e.DeliverBlock(nil); err != nil {
		t.Fatalf("history %d: idle block: %v", h.H, err)
	}
	_, idle := w.encode(in, q0, w.snap(false))
	kinds := []string{}
	if kind != "" {
		kinds = strings.Split(strings.TrimSuffix(kind, "#K"), "+")
	}
	em.Emit(map[string]any{"h": h.H, "i": 0, "act": "Init", "args": map[string]any{"kind": kind}, "kinds": kinds, "g": w.grantObs(), "prep": w.prepErr, "idle": idle,
		"ncomp": len(compNames)})
	for i, stp := range steps {
		ev := map[string]any{"h": h.H, "i": i + 1, "act": stp.Act, "res": "fail", "cs": "", "code": 0, "cls": "", "log": ""}
		switch stp.Act {
		case "Grant", "GrantExp", "Revoke":
			var a grantArgs
			if err := json.Unmarshal(stp.Args, &a); err != nil {
				t.Fatal(err)
			}
			if a.AK == "" {
				a.AK = "basic"
			}
			ev["args"] = a
			var msg sdk.Msg
			switch stp.Act {
			case "Revoke":
				m := feegrant.NewMsgRevokeAllowance(w.addr(a.G), w.addr(a.E))
				msg = &m
			default:
				var exp *time.Time
				if stp.Act == "GrantExp" {
					// valid in the block that stores it, expired at the time of every later block
					x := e.Time.Add(e.Opts.BlockTime).Add(time.Second)
					exp = &x
				} else if strings.HasSuffix(a.AK, "+") {
					x := e.Time.Add(time.Hour)
					exp = &x
				}
				al, err := allowance(a.AK, exp)
				if err != nil {
					t.Fatal(err)
				}
				m, err := feegrant.NewMsgGrantAllowance(al, w.addr(a.G), w.addr(a.E))
				if err != nil {
					t.Fatal(err)
				}
				msg = m
			}
			r, err := e.RunAs(w.acc(a.G), msg)
			if err != nil {
				blockFail(em, ev, err)
				return
			}
			fill(ev, r)
			ev["g"], ev["gk"] = w.grantObs(), w.grantKinds()
			em.Emit(ev)
		case "Deliver":
			var a deliverArgs
			if err := json.Unmarshal(stp.Args, &a); err != nil {
				t.Fatal(err)
			}
			ev["args"] = a
			ev["g"] = w.grantObs() // as the transaction will see the allowances
			ev["via"] = "tx"
			pre := w.snap(true)
			var buildErr string
			var msg sdk.Msg
			func() {
				defer func() {
					if r := recover(); r != nil {
						buildErr = fmt.Sprint(r)
					}
				}()
				msg = w.build(a.Kind, a.S, a.C, a.N)
			}()
			if buildErr != "" {
				ev["cls"], ev["log"] = "build", firstLine(buildErr)
			} else if a.S == pGov {
				ev["via"] = "gov"
				if err := w.viaGov(ev, msg); err != nil {
					blockFail(em, ev, err)
					return
				}
			} else {
				tx, err := e.SignTxWith([]*env.Account{w.acc(a.S)}, msg)
				if err != nil {
					ev["cls"], ev["log"] = "build", firstLine(err.Error())
				} else {
					r, err := e.RunTx(tx)
					if err != nil {
						blockFail(em, ev, err)
						return
					}
					fill(ev, r)
				}
			}
			post := w.snap(true)
			obs, chg := w.encode(in, pre, post)
			ev["obs"], ev["chg"] = obs, chg
			ev["gpost"] = w.grantObs()
			ev["suspect"] = map[string]any{"A": w.suspects(pre, post, pA), "B": w.suspects(pre, post, pB)}
			em.Emit(ev)
		case "Reimport":
			// the genesis round trip of the whole application, then one block (the imported state is committed with it)
			ev["args"] = map[string]any{"kind": strings.TrimSuffix(strings.Split(kind, "+")[0], "#K")}
			ev["g"] = w.grantObs()
			pre := w.snap(true)
			if err := e.Reimport(); err != nil {
				ev["cls"], ev["log"] = "reimport", firstLine(err.Error())
			} else if _, err := e.DeliverBlock(nil); err != nil {
				ev["cls"], ev["log"] = "reimport", firstLine(err.Error())
			} else {
				ev["res"], ev["cls"] = "ok", "ok"
			}
			if ev["res"] != "ok" {
				// the application is unusable: recorded, the history ends here
				ev["obs"], ev["chg"], ev["gpost"] = map[string]any{}, []string{}, map[string]int{"ab": 0, "ba": 0}
				em.Emit(ev)
				return
			}
			post := w.snap(true)
			obs, chg := w.encode(in, pre, post)
			ev["obs"], ev["chg"] = obs, chg
			ev["gpost"] = w.grantObs()
			em.Emit(ev)
		case "DeliverK":
			var a deliverKArgs
			if err := json.Unmarshal(stp.Args, &a); err != nil {
				t.Fatal(err)
			}
			ev["args"] = a
			ev["g"] = w.grantObs()
			ev["via"] = "tx"
			ev["key"] = ""
			pre := w.snap(true)
			var buildErr string
			var msg sdk.Msg
			func() {
				defer func() {
					if r := recover(); r != nil {
						buildErr = fmt.Sprint(r)
					}
				}()
				var key string
				msg, key = w.buildK(a.Kind, a.S, a.C, a.N, a.V)
				ev["key"] = key
			}()
			if buildErr != "" {
				ev["cls"], ev["log"] = "build", firstLine(buildErr)
			} else if tx, err := e.SignTxWith([]*env.Account{w.acc(a.S)}, msg); err != nil {
				// a message the transaction builder itself refuses (e.g. an address it cannot parse) never reaches the chain
				ev["cls"], ev["log"] = "unsignable", firstLine(err.Error())
			} else {
				r, err := e.RunTx(tx)
				if err != nil {
					blockFail(em, ev, err)
					return
				}
				fill(ev, r)
			}
			post := w.snap(true)
			obs, chg := w.encode(in, pre, post)
			ev["obs"], ev["chg"] = obs, chg
			ev["gpost"] = w.grantObs()
			ev["suspect"] = map[string]any{"A": w.suspects(pre, post, pA), "B": w.suspects(pre, post, pB)}
			em.Emit(ev)
		case "Deliver2":
			var a deliver2Args
			if err := json.Unmarshal(stp.Args, &a); err != nil {
				t.Fatal(err)
			}
			ev["args"] = a
			ev["g"] = w.grantObs()
			ev["via"] = "tx"
			pre := w.snap(true)
			var buildErr string
			var msgs []sdk.Msg
			func() {
				defer func() {
					if r := recover(); r != nil {
						buildErr = fmt.Sprint(r)
					}
				}()
				honest := w.build(a.K1, a.S, a.S, a.S)
				other := w.build(a.K2, a.S, a.C, a.C) // signed by S only, in C's name
				if a.Ord == 1 {
					msgs = []sdk.Msg{honest, other}
				} else {
					msgs = []sdk.Msg{other, honest}
				}
			}()
			if buildErr != "" {
				ev["cls"], ev["log"] = "build", firstLine(buildErr)
			} else if tx, err := e.SignTxWith([]*env.Account{w.acc(a.S)}, msgs...); err != nil {
				ev["cls"], ev["log"] = "build", firstLine(err.Error())
			} else {
				r, err := e.RunTx(tx)
				if err != nil {
					blockFail(em, ev, err)
					return
				}
				fill(ev, r)
			}
			post := w.snap(true)
			obs, chg := w.encode(in, pre, post)
			ev["obs"], ev["chg"] = obs, chg
			ev["gpost"] = w.grantObs()
			ev["suspect"] = map[string]any{"A": w.suspects(pre, post, pA), "B": w.suspects(pre, post, pB)}
			em.Emit(ev)
		default:
			t.Fatalf("history %d: unknown action %s", h.H, stp.Act)
		}
	}
}

func fill(ev map[string]any, r *abci.ExecTxResult) {
	ev["cs"], ev["code"], ev["cls"] = r.Codespace, int(r.Code), classify(r)
	if r.Code == 0 {
		ev["res"] = "ok"
	} else {
		ev["log"] = firstLine(r.Log)
	}
}

func blockFail(em *drv.Emitter, ev map[string]any, err error) {
	ev["res"], ev["cs"], ev["code"], ev["cls"] = "blockfail", "block", -1, "block"
	ev["log"] = firstLine(err.Error())
	if _, ok := ev["g"]; !ok {
		ev["g"] = map[string]int{"ab": 0, "ba": 0}
	}
	if a, ok := ev["act"].(string); ok && (a == "Grant" || a == "GrantExp" || a == "Revoke") {
		ev["gk"] = map[string]string{"ab": "-", "ba": "-"}
	}
	if ev["act"] == "Deliver" || ev["act"] == "Deliver2" || ev["act"] == "DeliverK" {
		ev["obs"], ev["chg"], ev["suspect"], ev["gpost"] = map[string]any{}, []string{}, map[string]any{}, map[string]int{"ab": 0, "ba": 0}
	}
	em.Emit(ev)
}

// viaGov executes msg the way the governance authority does: a proposal carrying it is submitted and funded by
// a bystander, the bystander validator (71% of the power) votes yes, x/gov executes it at the end of the voting
// period through the message router.
func (w *world) viaGov(ev map[string]any, msg sdk.Msg) error {
	e := w.e
	prop, err := govv1.NewMsgSubmitProposal([]sdk.Msg{msg}, sdk.NewCoins(sdk.NewInt64Coin(env.BondDenom, 10)), w.proposer().Bech32(), "", "verif", "verif", false)
	if err != nil {
		ev["cls"], ev["log"] = "govsubmit", firstLine(err.Error())
		return nil
	}
	r, err := e.RunAs(w.proposer(), prop)
	if err != nil {
		return err
	}
	if r.Code != 0 {
		ev["cs"], ev["code"], ev["cls"], ev["log"] = r.Codespace, int(r.Code), "govsubmit", firstLine(r.Log)
		return nil
	}
	var id uint64
	for _, evn := range r.Events {
		if evn.Type == "submit_proposal" {
			for _, at := range evn.Attributes {
				if at.Key == "proposal_id" {
					fmt.Sscan(at.Value, &id)
				}
			}
		}
	}
	if id == 0 {
		ev["cls"], ev["log"] = "govsubmit", "no proposal id in events"
		return nil
	}
	vr, err := e.RunAs(w.v2(), govv1.NewMsgVote(w.v2().Addr, id, govv1.OptionYes, ""))
	if err != nil {
		return err
	}
	if vr.Code != 0 {
		ev["cls"], ev["log"] = "govvote", firstLine(vr.Log)
		return nil
	}
	for k := 0; k < 6; k++ {
		p, err := e.App.GovKeeper.Proposals.Get(e.Ctx(), id)
		if err != nil {
			ev["cls"], ev["log"] = "govstatus", firstLine(err.Error())
			return nil
		}
		switch p.Status {
		case govv1.StatusPassed:
			ev["res"], ev["cls"] = "ok", "ok"
			return nil
		case govv1.StatusFailed:
			ev["cs"], ev["code"], ev["cls"], ev["log"] = "gov", 1, "handler", firstLine(p.FailedReason)
			return nil
		case govv1.StatusRejected:
			ev["cls"], ev["log"] = "govvote", "proposal rejected"
			return nil
		}
		if _, err := e.DeliverBlock(nil); err != nil {
			return err
		}
	}
	ev["cls"], ev["log"] = "govstatus", "proposal still in voting period"
	return nil
}

// runRegistry records which sdk.Msg types the Paloma modules registered and which of them the router serves.
func runRegistry(em *drv.Emitter, h drv.History) {
	e := env.NewE2(env.E2Options{Seed: drv.Seed(), Powers: []int64{10}})
	defer e.Close()
	var reg, routed []string
	for _, u := range e.App.InterfaceRegistry().ListImplementations(sdk.MsgInterfaceProtoName) {
		if strings.HasPrefix(u, "/palomachain.paloma.") {
			reg = append(reg, u)
			if e.App.MsgServiceRouter().HandlerByTypeURL(u) != nil {
				routed = append(routed, u)
			}
		}
	}
	sort.Strings(reg)
	sort.Strings(routed)
	var table []map[string]string
	var ks []string
	for k := range kindURL {
		ks = append(ks, k)
	}
	sort.Strings(ks)
	for _, k := range ks {
		table = append(table, map[string]string{"kind": k, "url": kindURL[k]})
	}
	em.Emit(map[string]any{"h": h.H, "i": 0, "act": "Init", "args": map[string]any{"kind": ""}, "kinds": []string{}, "g": map[string]int{"ab": 0, "ba": 0}, "prep": "", "idle": []string{}, "ncomp": len(compNames)})
	em.Emit(map[string]any{"h": h.H, "i": 1, "act": "Registry", "args": map[string]any{}, "reg": reg, "routed": routed, "table": table, "comps": compNames})
}
