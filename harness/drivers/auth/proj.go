//go:build verif

package auth

import (
	"bytes"
	"crypto/sha256"
	"encoding/hex"
	"fmt"
	"sort"
	"strings"

	storetypes "cosmossdk.io/store/types"
	sdk "github.com/cosmos/cosmos-sdk/types"
	ctypes "github.com/palomachain/paloma/v2/x/consensus/types"
	st "github.com/palomachain/paloma/v2/x/skyway/types"
)

// Components of the state attributed to a principal, in the order of obs.pre / obs.post.
// 1..20: what Paloma keeps in the name of a validator / a user; 21..28: governance-controlled settings (only
// non-empty for the governance authority).
var compNames = []string{
	"votes", "nonce", "bconf", "best", "sigs", "evid", "gest", "pad", "alive", "ext", "fee", "val",
	"xfers", "jobs", "usc", "denoms", "lnode", "erc20", "bal", "acct",
	"params", "chains", "compass", "deploy", "bridge", "observed", "replen", "lnset",
	"dmeta", // bank metadata of the factory denoms the principal is the current admin of
}

var knownJobs = []string{"job-1", "job-2", "job-new"}

func h(s string) string {
	if s == "" {
		return ""
	}
	x := sha256.Sum256([]byte(s))
	return hex.EncodeToString(x[:8])
}

// project reads the state attributed to principal p from the committed stores through the keepers.
func (w *world) project(p int) []string {
	a := w.e.App
	ctx := w.e.Ctx()
	acc := w.addr(p)
	val := sdk.ValAddress(acc)
	out := make([]string, len(compNames))
	set := func(name string, parts []string) {
		for i, n := range compNames {
			if n == name {
				sort.Strings(parts)
				out[i] = strings.Join(parts, ";")
				return
			}
		}
		panic("unknown component " + name)
	}
	// --- skyway oracle
	var votes []string
	_ = a.SkywayKeeper.IterateAttestations(ctx, chain, false, func(key []byte, att st.Attestation) bool {
		for _, v := range att.Votes {
			if v == val.String() {
				votes = append(votes, hex.EncodeToString(key))
			}
		}
		return false
	})
	set("votes", votes)
	if n, err := a.SkywayKeeper.GetLastSkywayNonceByValidator(ctx, val, chain); err == nil {
		set("nonce", []string{fmt.Sprint(n)})
	}
	var bconf, best []string
	a.SkywayKeeper.IterateBatchConfirms(ctx, func(_ []byte, c st.MsgConfirmBatch) bool {
		if c.Orchestrator == acc.String() {
			bconf = append(bconf, fmt.Sprintf("%d/%s/%s/%s", c.Nonce, c.TokenContract, c.EthSigner, h(c.Signature)))
		}
		return false
	})
	a.SkywayKeeper.IterateBatchGasEstimates(ctx, func(_ []byte, c st.MsgEstimateBatchGas) bool {
		if c.Metadata.Creator == acc.String() {
			best = append(best, fmt.Sprintf("%d/%s/%s/%d", c.Nonce, c.TokenContract, c.EthSigner, c.Estimate))
		}
		return false
	})
	set("bconf", bconf)
	set("best", best)
	// --- consensus queues
	var sigs, evid, gest, pad []string
	for _, q := range []string{slcQueue, refQueue} {
		ms, err := a.ConsensusKeeper.GetMessagesFromQueue(ctx, q, 0)
		if err != nil {
			continue
		}
		for _, m := range ms {
			for _, s := range m.GetSignData() {
				if bytes.Equal(s.ValAddress, val) {
					sigs = append(sigs, fmt.Sprintf("%s/%d/%s/%s", q, m.GetId(), s.ExternalAccountAddress, h(string(s.Signature))))
				}
			}
			for _, x := range m.GetEvidence() {
				if bytes.Equal(x.ValAddress, val) {
					evid = append(evid, fmt.Sprintf("%s/%d/%s", q, m.GetId(), h(string(x.Proof.Value))))
				}
			}
			for _, x := range m.GetGasEstimates() {
				if bytes.Equal(x.ValAddress, val) {
					gest = append(gest, fmt.Sprintf("%s/%d/%d", q, m.GetId(), x.Value))
				}
			}
			if d := m.GetPublicAccessData(); d != nil && bytes.Equal(d.ValAddress, val) {
				pad = append(pad, fmt.Sprintf("%s/%d/pad/%x", q, m.GetId(), d.Data))
			}
			if d := m.GetErrorData(); d != nil && bytes.Equal(d.ValAddress, val) {
				pad = append(pad, fmt.Sprintf("%s/%d/err/%x", q, m.GetId(), d.Data))
			}
		}
	}
	set("sigs", sigs)
	set("evid", evid)
	set("gest", gest)
	set("pad", pad)
	// --- valset
	if d, err := a.ValsetKeeper.ValidatorKeepAliveData(ctx, val); err == nil {
		set("alive", []string{fmt.Sprintf("%d/%s/%d", d.AliveUntilBlockHeight, d.PigeonVersion, d.ContactedAt.Unix())})
	}
	if infos, err := a.ValsetKeeper.GetValidatorChainInfos(ctx, val); err == nil {
		var ext []string
		for _, ci := range infos {
			ext = append(ext, fmt.Sprintf("%s/%s/%s/%x/%s/%v", ci.ChainType, ci.ChainReferenceID, ci.Address, ci.Pubkey, ci.Balance, ci.Traits))
		}
		set("ext", ext)
	}
	// --- treasury
	if fees, err := a.TreasuryKeeper.GetRelayerFees(ctx); err == nil {
		var fs []string
		for _, f := range fees {
			if f.ValAddress == val.String() {
				for _, x := range f.Fees {
					fs = append(fs, x.ChainReferenceId+"="+x.Multiplicator.String())
				}
			}
		}
		set("fee", fs)
	}
	// --- staking status of the validator
	if v, err := a.StakingKeeper.GetValidator(ctx, val); err == nil {
		set("val", []string{fmt.Sprintf("%v/%s/%s", v.Jailed, v.Status, v.Tokens)})
	}
	// --- user state
	if txs, err := a.SkywayKeeper.GetUnbatchedTransactions(ctx); err == nil {
		var xs []string
		for _, t := range txs {
			if t.Sender.Equals(acc) {
				xs = append(xs, fmt.Sprintf("%d/%s/%s", t.Id, t.Erc20Token.Amount, t.DestAddress.GetAddress().Hex()))
			}
		}
		set("xfers", xs)
	}
	var jobs []string
	for _, id := range knownJobs {
		if j, err := a.SchedulerKeeper.GetJob(ctx, id); err == nil && j != nil && j.Owner.Equals(acc) {
			bz, _ := j.Marshal()
			jobs = append(jobs, id+"/"+h(string(bz)))
		}
	}
	set("jobs", jobs)
	if cs, err := a.EvmKeeper.UserSmartContracts(ctx, val.String()); err == nil {
		var us []string
		for _, c := range cs {
			bz, _ := c.Marshal()
			us = append(us, fmt.Sprintf("%d/%d/%s", c.Id, len(c.Deployments), h(string(bz))))
		}
		set("usc", us)
	}
	// factory denoms are attributed to their CURRENT admin (the admin role can be handed over with MsgChangeAdmin; the
	// creator baked into factory/<creator>/<sub> is then no longer the owner), and so are both bridge mapping records
	// (denom -> erc20 and erc20 -> denom) of such a denom
	var dens, erc, dmeta []string
	mine := map[string]bool{}
	for _, cr := range []sdk.AccAddress{w.addr(pA), w.addr(pB), w.v2().Addr, w.gov} {
		for _, d := range a.TokenFactoryKeeper.GetDenomsFromCreator(ctx, cr.String()) {
			am, err := a.TokenFactoryKeeper.GetAuthorityMetadata(ctx, d)
			if err != nil || am.Admin != acc.String() {
				continue
			}
			mine[d] = true
			md, _ := a.BankKeeper.GetDenomMetaData(ctx, d)
			dens = append(dens, fmt.Sprintf("%s/%s/%s", d, am.Admin, a.BankKeeper.GetSupply(ctx, d).Amount))
			dmeta = append(dmeta, d+"/"+h(md.String()))
			if e, err := a.SkywayKeeper.GetERC20OfDenom(ctx, chain, d); err == nil && e != nil {
				erc = append(erc, "d2e:"+d+"="+e.GetAddress().Hex())
			}
		}
	}
	if ms, err := a.SkywayKeeper.GetAllERC20ToDenoms(ctx); err == nil {
		for _, m := range ms {
			if mine[m.Denom] {
				erc = append(erc, "e2d:"+m.ChainReferenceId+"/"+m.Erc20+"="+m.Denom)
			}
		}
	}
	if ms, err := a.SkywayKeeper.GetAllDenomToERC20s(ctx); err == nil {
		for _, m := range ms {
			if mine[m.Denom] {
				erc = append(erc, "d2e-all:"+m.ChainReferenceId+"/"+m.Denom+"="+m.Erc20)
			}
		}
	}
	set("denoms", dens)
	set("dmeta", dmeta)
	set("erc20", erc)
	var ln []string
	if l, err := a.PalomaKeeper.GetLightNodeClientLicense(ctx, acc.String()); err == nil && l != nil {
		ln = append(ln, fmt.Sprintf("lic/%s/%d", l.Amount, l.VestingMonths))
	}
	if c, err := a.PalomaKeeper.GetLightNodeClient(ctx, acc.String()); err == nil && c != nil {
		ln = append(ln, fmt.Sprintf("cli/%d/%d", c.ActivatedAt.Unix(), c.LastAuthAt.Unix()))
	}
	set("lnode", ln)
	set("bal", []string{a.BankKeeper.GetAllBalances(ctx, acc).String()})
	if ac := a.AccountKeeper.GetAccount(ctx, acc); ac != nil {
		set("acct", []string{fmt.Sprintf("%T/%d/%d", ac, ac.GetAccountNumber(), ac.GetSequence())})
	}
	if p != pGov {
		return out
	}
	// --- governance-controlled settings
	fees, _ := a.TreasuryKeeper.GetFees(ctx)
	sp, pp, tp := a.SkywayKeeper.GetParams(ctx), a.PalomaKeeper.GetParams(ctx), a.TokenFactoryKeeper.GetParams(ctx)
	set("params", []string{"sk=" + sp.String(), "pa=" + pp.String(), "tf=" + tp.String(), fmt.Sprintf("tr=%v", fees)})
	if cis, err := a.EvmKeeper.GetAllChainInfos(ctx); err == nil {
		var cs []string
		for _, ci := range cis {
			bz, _ := ci.Marshal()
			cs = append(cs, ci.ChainReferenceID+"/"+h(string(bz)))
		}
		set("chains", cs)
	}
	if sc, err := a.EvmKeeper.GetLastCompassContract(ctx); err == nil && sc != nil {
		set("compass", []string{fmt.Sprintf("%d/%s", sc.Id, h(string(sc.Bytecode)))})
	}
	if ds, err := a.EvmKeeper.AllSmartContractsDeployments(ctx); err == nil {
		var xs []string
		for _, d := range ds {
			xs = append(xs, fmt.Sprintf("%d/%s/%s/%x", d.SmartContractID, d.ChainReferenceID, d.Status, d.UniqueID))
		}
		set("deploy", xs)
	}
	if ms, err := a.SkywayKeeper.GetAllERC20ToDenoms(ctx); err == nil {
		var xs []string
		for _, m := range ms {
			if !strings.HasPrefix(m.Denom, "factory/") { // factory denoms are mapped by their admin (component erc20)
				xs = append(xs, m.ChainReferenceId+"/"+m.Erc20+"="+m.Denom)
			}
		}
		set("bridge", xs)
	}
	if n, err := a.SkywayKeeper.GetLastObservedSkywayNonce(ctx, chain); err == nil {
		set("observed", []string{fmt.Sprint(n)})
	}
	if a.SkywayKeeper.GetStore(ctx, st.StoreModulePrefix).Get(st.ReplenishedGrainRecordsKey) != nil {
		set("replen", []string{"done"})
	}
	var lns []string
	if g, err := a.PalomaKeeper.LightNodeClientFeegranter(ctx); err == nil && g != nil {
		lns = append(lns, "granter="+g.Account.String())
	}
	if f, err := a.PalomaKeeper.LightNodeClientFunders(ctx); err == nil && f != nil {
		lns = append(lns, fmt.Sprintf("funders=%v", f.Accounts))
	}
	set("lnset", lns)
	return out
}

// interner maps projection strings to small integers (0 = empty) within one history.
type interner map[string]int

func (in interner) id(s string) int {
	if s == "" {
		return 0
	}
	if v, ok := in[s]; ok {
		return v
	}
	in[s] = len(in) + 1
	return in[s]
}

type snapshot struct {
	proj  map[int][]string  // principal -> component strings
	store map[string][]byte // whole Paloma multistore, "store|key" -> value (suspect diff)
	grant map[[2]int]bool   // active fee allowances between A and B
}

// palomaStores: every KV store owned by a Paloma module.
var palomaStores = []string{"skyway", "consensus", "valset", "evm", "treasury", "scheduler", "paloma", "metrix", "tokenfactory"}

func (w *world) snap(withStores bool) *snapshot {
	s := &snapshot{proj: map[int][]string{}, grant: map[[2]int]bool{}}
	for _, p := range []int{pA, pB, pGov} {
		s.proj[p] = w.project(p)
	}
	ctx := w.e.Ctx()
	for _, g := range []int{pA, pB} {
		for _, e := range []int{pA, pB} {
			if g != e {
				al, err := w.e.App.FeeGrantKeeper.GetAllowance(ctx, w.addr(g), w.addr(e))
				s.grant[[2]int{g, e}] = err == nil && al != nil
			}
		}
	}
	if withStores {
		s.store = map[string][]byte{}
		for _, name := range palomaStores {
			k := w.e.App.GetKey(name)
			if k == nil {
				continue
			}
			it := ctx.KVStore(k).Iterator(nil, nil)
			for ; it.Valid(); it.Next() {
				s.store[name+"|"+string(it.Key())] = append([]byte{}, it.Value()...)
			}
			it.Close()
		}
	}
	return s
}

var _ storetypes.KVStore

// suspects: changed keys of the Paloma stores whose key or value (old or new) contains an identifier of
// principal p (address bytes, account / operator bech32). A discovery aid, not a verdict.
func (w *world) suspects(pre, post *snapshot, p int) []string {
	if pre.store == nil || post.store == nil {
		return []string{}
	}
	acc := w.addr(p)
	ids := [][]byte{acc.Bytes(), []byte(acc.String()), []byte(sdk.ValAddress(acc).String())}
	has := func(b []byte) bool {
		for _, id := range ids {
			if bytes.Contains(b, id) {
				return true
			}
		}
		return false
	}
	seen := map[string]bool{}
	out := []string{}
	note := func(k string, a, b []byte) {
		if seen[k] || bytes.Equal(a, b) {
			return
		}
		if has([]byte(k)) || has(a) || has(b) {
			seen[k] = true
			i := strings.IndexByte(k, '|')
			op := "set"
			if a == nil {
				op = "add"
			} else if b == nil {
				op = "del"
			}
			key := k[i+1:]
			if len(key) > 24 {
				key = key[:24]
			}
			out = append(out, fmt.Sprintf("%s:%s:%x", k[:i], op, key))
		}
	}
	for k, v := range pre.store {
		note(k, v, post.store[k])
	}
	for k, v := range post.store {
		if _, ok := pre.store[k]; !ok {
			note(k, nil, v)
		}
	}
	sort.Strings(out)
	if len(out) > 6 {
		out = append(out[:6], fmt.Sprintf("+%d more", len(out)-6))
	}
	return out
}

func principalName(p int) string { return map[int]string{pA: "A", pB: "B", pGov: "G"}[p] }

// encode turns the two snapshots into the obs record of an event.
func (w *world) encode(in interner, pre, post *snapshot) (map[string]any, []string) {
	obs := map[string]any{}
	var changed []string
	for _, side := range []struct {
		name string
		s    *snapshot
	}{{"pre", pre}, {"post", post}} {
		m := map[string]any{}
		for _, p := range []int{pA, pB, pGov} {
			ids := make([]int, len(compNames))
			for i, s := range side.s.proj[p] {
				ids[i] = in.id(s)
			}
			m[principalName(p)] = ids
		}
		obs[side.name] = m
	}
	detail := map[string]any{}
	for _, p := range []int{pA, pB, pGov} {
		for i := range compNames {
			if pre.proj[p][i] != post.proj[p][i] {
				name := principalName(p) + "." + compNames[i]
				changed = append(changed, name)
				detail[name] = []string{clip(pre.proj[p][i]), clip(post.proj[p][i])}
			}
		}
	}
	obs["detail"] = detail
	if changed == nil {
		changed = []string{}
	}
	return obs, changed
}

func clip(s string) string {
	if len(s) > 220 {
		return s[:220] + "..."
	}
	return s
}

func b2i(b bool) int {
	if b {
		return 1
	}
	return 0
}

var _ = ctypes.ModuleName
