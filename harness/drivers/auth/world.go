//go:build verif

// World of the Auth driver (property C03): the full application (E2) with three bonded genesis validators
// (A = validator 0, B = validator 1, a bystander V2), a governance proposer and the light-node service accounts.
// Everything only governance / genesis could do on a live chain is done through keepers in E2.Setup between
// blocks (listed in the evidence assumptions); the per-kind preparation creates the objects the tuple refers to
// (B's and A's pending transfers, jobs, contracts, denoms, licences, a batch, queued messages).
package auth

import (
	"crypto/ecdsa"
	"encoding/json"
	"fmt"
	"math/big"
	"os"
	"path/filepath"
	"strings"
	"time"

	"cosmossdk.io/math"
	"cosmossdk.io/x/feegrant"
	"github.com/cosmos/cosmos-sdk/codec"
	sdk "github.com/cosmos/cosmos-sdk/types"
	authtypes "github.com/cosmos/cosmos-sdk/x/auth/types"
	govtypes "github.com/cosmos/cosmos-sdk/x/gov/types"
	govv1 "github.com/cosmos/cosmos-sdk/x/gov/types/v1"
	"github.com/ethereum/go-ethereum/common"
	"github.com/ethereum/go-ethereum/crypto"
	"github.com/palomachain/paloma/v2/app"
	cq "github.com/palomachain/paloma/v2/x/consensus/keeper/consensus"
	ctypes "github.com/palomachain/paloma/v2/x/consensus/types"
	evmkeeper "github.com/palomachain/paloma/v2/x/evm/keeper"
	evmtypes "github.com/palomachain/paloma/v2/x/evm/types"
	palomatypes "github.com/palomachain/paloma/v2/x/paloma/types"
	schedtypes "github.com/palomachain/paloma/v2/x/scheduler/types"
	skywaykeeper "github.com/palomachain/paloma/v2/x/skyway/keeper"
	skywaytypes "github.com/palomachain/paloma/v2/x/skyway/types"
	tfkeeper "github.com/palomachain/paloma/v2/x/tokenfactory/keeper"
	tftypes "github.com/palomachain/paloma/v2/x/tokenfactory/types"
	treasurytypes "github.com/palomachain/paloma/v2/x/treasury/types"
	valsettypes "github.com/palomachain/paloma/v2/x/valset/types"
	"verifharness/drv"
	"verifharness/env"
)

const (
	chain        = "eth-a"
	compassAddr  = "0x00000000000000000000000000000000000c0de1"
	feeMgrAddr   = "0x00000000000000000000000000000000000fee00"
	deployerAddr = "0x0000000000000000000000000000000000de9101"
	bridgeERC20  = "0x1111111111111111111111111111111111111111"
	factoryERC20 = "0x2222222222222222222222222222222222222222"
	jobDef       = `{"abi":"5b5d","address":"0x00000000000000000000000000000000000000cc"}`
	jobPayload   = `{"hexPayload":"c2985578"}`
	slcABI       = `[{"inputs":[],"name":"foo","outputs":[],"stateMutability":"nonpayable","type":"function"}]`
	pigeonVer    = "v9.0.0"
)

var (
	slcQueue = ctypes.Queue(evmtypes.ConsensusTurnstoneMessage, "evm", chain)
	refQueue = ctypes.Queue(evmkeeper.ConsensusGetReferenceBlock, "evm", chain)
)

// principals of the model: 1 = A, 2 = B, 3 = Gov
const (
	pA   = 1
	pB   = 2
	pGov = 3
)

type world struct {
	e       *env.E2
	gov     sdk.AccAddress
	eth     []*ecdsa.PrivateKey // eth key per validator (A, B, V2)
	newEth  []*ecdsa.PrivateKey // a second eth key per validator (re-registration)
	compass string
	abiJSON string
	bytecod []byte

	// objects created by the per-kind preparation
	xferID   map[int]uint64 // pending transfer per principal
	batch    *skywaytypes.InternalOutgoingTxBatch
	slcID    uint64
	refID    uint64
	uscID    map[int]uint64
	denom    map[int]string
	jobID    map[int]string
	handed   map[int]string  // denom whose CURRENT admin the principal is (created by the other principal)
	done     map[string]bool // preparations already made
	sc2      uint64
	nextNonc uint64
	prepErr  string
}

func repoDir() string {
	if d := os.Getenv("VERIF_REPO"); d != "" {
		return d
	}
	return "/repo"
}

func must(err error) {
	if err != nil {
		panic(err)
	}
}

func ethKey(tag string, i int) *ecdsa.PrivateKey {
	k, err := crypto.ToECDSA(crypto.Keccak256([]byte(fmt.Sprintf("verif-auth-%s-%d-%d", tag, drv.Seed(), i))))
	must(err)
	return k
}

func ethAddr(k *ecdsa.PrivateKey) common.Address { return crypto.PubkeyToAddress(k.PublicKey) }

var compassABI, compassBytecode = func() (string, []byte) {
	a, err := os.ReadFile(filepath.Join(repoDir(), "x/evm/keeper/testdata/sample-abi.json"))
	must(err)
	b, err := os.ReadFile(filepath.Join(repoDir(), "x/evm/keeper/testdata/sample-bytecode.out"))
	must(err)
	return string(a), common.FromHex(strings.TrimSpace(string(b)))
}()

// accounts: validators 0..2 (A, B, V2), users: 0 = light-node fee granter, 1 = light-node funder, 2 = proposal submitter
func (w *world) acc(p int) *env.Account {
	switch p {
	case pA:
		return w.e.Acc(0)
	case pB:
		return w.e.Acc(1)
	}
	return nil
}

func (w *world) v2() *env.Account        { return w.e.Acc(2) }
func (w *world) granterLN() *env.Account { return w.e.User(0) }
func (w *world) funderLN() *env.Account  { return w.e.User(1) }
func (w *world) proposer() *env.Account  { return w.e.User(2) }

// addr is the account address of a principal (the governance authority for Gov).
func (w *world) addr(p int) sdk.AccAddress {
	if p == pGov {
		return w.gov
	}
	return w.acc(p).Addr
}

func (w *world) valoper(p int) sdk.ValAddress { return sdk.ValAddress(w.addr(p)) }

// ethOf: the registered external key of a principal; Gov has none (a key nobody registered).
func (w *world) ethOf(p int) *ecdsa.PrivateKey {
	if p == pGov {
		return ethKey("nobody", 0)
	}
	return w.eth[p-1]
}

func newWorld(kind string) *world {
	e := env.NewE2(env.E2Options{Seed: drv.Seed(), Powers: []int64{10, 10, 50}, NumUsers: 3, Gas: 100_000_000,
		Genesis: func(cdc codec.Codec, gs app.GenesisState) {
			var gg govv1.GenesisState
			cdc.MustUnmarshalJSON(gs[govtypes.ModuleName], &gg)
			vp, evp, dp := 10*time.Second, 5*time.Second, time.Hour
			gg.Params.VotingPeriod, gg.Params.ExpeditedVotingPeriod, gg.Params.MaxDepositPeriod = &vp, &evp, &dp
			gg.Params.MinDeposit = sdk.NewCoins(sdk.NewInt64Coin(env.BondDenom, 1))
			gg.Params.ExpeditedMinDeposit = sdk.NewCoins(sdk.NewInt64Coin(env.BondDenom, 2))
			gg.Params.MinInitialDepositRatio = "0"
			gs[govtypes.ModuleName] = cdc.MustMarshalJSON(&gg)
		}})
	w := &world{e: e, gov: authtypes.NewModuleAddress(govtypes.ModuleName), xferID: map[int]uint64{}, uscID: map[int]uint64{},
		denom: map[int]string{}, jobID: map[int]string{}, nextNonc: 1, handed: map[int]string{}, done: map[string]bool{}}
	for i := 0; i < 3; i++ {
		w.eth = append(w.eth, ethKey("val-eth", i))
		w.newEth = append(w.newEth, ethKey("val-eth-new", i))
	}
	w.compass = "compass-" + chain + "-1"
	_, err := e.DeliverBlock(nil)
	must(err)
	must(e.Setup(w.base))
	func() {
		defer func() {
			if r := recover(); r != nil {
				w.prepErr = fmt.Sprint(r)
			}
		}()
		must(e.Setup(func(ctx sdk.Context) error {
			for _, k := range strings.Split(kind, "+") { // a two-message transaction needs the objects of both kinds
				if err := w.prep(ctx, k); err != nil {
					return err
				}
			}
			return nil
		}))
	}()
	_, err = e.DeliverBlock(nil)
	must(err)
	return w
}

// base: what governance and the validators' own pigeons did before the history starts.
func (w *world) base(ctx sdk.Context) error {
	a := w.e.App
	must(a.EvmKeeper.AddSupportForNewChain(ctx, chain, 100, 123, "0x1234", big.NewInt(55)))
	for i := 0; i < 3; i++ {
		v := w.e.Vals[i]
		ea := ethAddr(w.eth[i])
		must(a.ValsetKeeper.AddExternalChainInfo(ctx, v.ValAddr, []*valsettypes.ExternalChainInfo{{ChainType: "evm", ChainReferenceID: chain, Address: ea.Hex(), Pubkey: ea.Bytes()}}))
		must(a.TreasuryKeeper.SetRelayerFee(ctx, v.ValAddr, &treasurytypes.RelayerFeeSetting{ValAddress: v.ValAddr.String(),
			Fees: []treasurytypes.RelayerFeeSetting_FeeSetting{{Multiplicator: math.LegacyMustNewDecFromStr("1.10"), ChainReferenceId: chain}}}))
		must(a.ValsetKeeper.KeepValidatorAlive(ctx, v.ValAddr, pigeonVer))
	}
	_, err := a.ValsetKeeper.TriggerSnapshotBuild(ctx)
	must(err)
	sc1, err := a.EvmKeeper.SaveNewSmartContract(ctx, compassABI, compassBytecode)
	must(err)
	must(a.EvmKeeper.SetAsCompassContract(ctx, sc1)) // no fee manager yet: nothing is deployed
	must(a.EvmKeeper.ActivateChainReferenceID(ctx, chain, sc1, compassAddr, []byte(w.compass)))
	snap, err := a.ValsetKeeper.GetCurrentSnapshot(ctx)
	must(err)
	must(a.ValsetKeeper.SetSnapshotOnChain(ctx, snap.Id, chain))
	must(a.EvmKeeper.SetFeeManagerAddress(ctx, chain, feeMgrAddr))
	must(a.EvmKeeper.SetSmartContractDeployer(ctx, chain, deployerAddr))
	must(a.TreasuryKeeper.SetCommunityFundFee(ctx, "0.01"))
	must(a.TreasuryKeeper.SetSecurityFee(ctx, "0.01"))
	h := skywaykeeper.NewSkywayProposalHandler(a.SkywayKeeper)
	must(h(ctx, &skywaytypes.SetERC20ToDenomProposal{Title: "t", Description: "d", ChainReferenceId: chain, Erc20: bridgeERC20, Denom: env.BondDenom}))
	must(a.PalomaKeeper.SetLightNodeClientFeegranter(ctx, w.granterLN().Addr))
	must(a.PalomaKeeper.SetLightNodeClientFunders(ctx, []sdk.AccAddress{w.funderLN().Addr}))
	return nil
}

func (w *world) both(f func(p int)) {
	f(pA)
	f(pB)
}

// prep creates the objects the tuples of one message kind refer to.
func (w *world) prep(ctx sdk.Context, kind string) error {
	a := w.e.App
	keyed := strings.HasSuffix(kind, "#K") // key-collision delivery: the objects whose keys are collided with
	kind = strings.TrimSuffix(kind, "#K")
	if keyed {
		switch kind {
		case "PaAddLicenseFor":
			kind = "PaRegisterLightNodeClient" // both principals hold a licence record
		case "SkSetERC20ToTokenDenom":
			defer func() {
				// factory/<p>/sa is already bound to an ERC-20 of its admin's choosing; factory/<p>/su is not bound yet
				srv, sk := tfkeeper.NewMsgServerImpl(a.TokenFactoryKeeper), skywaykeeper.NewMsgServerImpl(a.SkywayKeeper)
				w.both(func(p int) {
					md := valsettypes.MsgMetadata{Creator: w.addr(p).String(), Signers: []string{w.addr(p).String()}}
					_, err := srv.CreateDenom(ctx, &tftypes.MsgCreateDenom{Subdenom: "su", Metadata: md})
					must(err)
					_, err = sk.SetERC20ToTokenDenom(ctx, &skywaytypes.MsgSetERC20ToTokenDenom{Metadata: md, Denom: w.denom[p], ChainReferenceId: chain, Erc20: boundERC20(p)})
					must(err)
				})
			}()
		}
	}
	dest, err := skywaytypes.NewEthAddress("0x00000000000000000000000000000000000000aa")
	must(err)
	contract, err := skywaytypes.NewEthAddress(bridgeERC20)
	must(err)
	once := func(name string, f func()) {
		if !w.done[name] {
			w.done[name] = true
			f()
		}
	}
	pool := func() {
		w.both(func(p int) {
			id, err := a.SkywayKeeper.AddToOutgoingPool(ctx, w.addr(p), *dest, sdk.NewInt64Coin(env.BondDenom, 1000), chain)
			must(err)
			w.xferID[p] = id
		})
	}
	batch := func() {
		_, err := a.SkywayKeeper.AddToOutgoingPool(ctx, w.v2().Addr, *dest, sdk.NewInt64Coin(env.BondDenom, 700), chain)
		must(err)
		b, err := a.SkywayKeeper.BuildOutgoingTXBatch(ctx, chain, *contract, 10)
		must(err)
		if b == nil {
			panic("no batch built")
		}
		w.batch = b
	}
	denoms := func(mint int64) {
		srv := tfkeeper.NewMsgServerImpl(a.TokenFactoryKeeper)
		w.both(func(p int) {
			md := valsettypes.MsgMetadata{Creator: w.addr(p).String(), Signers: []string{w.addr(p).String()}}
			r, err := srv.CreateDenom(ctx, &tftypes.MsgCreateDenom{Subdenom: "sa", Metadata: md})
			must(err)
			w.denom[p] = r.NewTokenDenom
			if mint > 0 {
				_, err = srv.Mint(ctx, &tftypes.MsgMint{Amount: sdk.NewInt64Coin(r.NewTokenDenom, mint), Metadata: md})
				must(err)
			}
		})
	}
	// ownership handed over: factory/<X>/sh was created (and 5 minted) by X, who then gave the admin role to the other
	// principal p (MsgChangeAdmin); p minted 5 more to itself. w.handed[p] is the denom p is the CURRENT admin of.
	handed := func() {
		srv := tfkeeper.NewMsgServerImpl(a.TokenFactoryKeeper)
		w.both(func(p int) {
			x := pA + pB - p
			mdx := valsettypes.MsgMetadata{Creator: w.addr(x).String(), Signers: []string{w.addr(x).String()}}
			mdp := valsettypes.MsgMetadata{Creator: w.addr(p).String(), Signers: []string{w.addr(p).String()}}
			r, err := srv.CreateDenom(ctx, &tftypes.MsgCreateDenom{Subdenom: "sh", Metadata: mdx})
			must(err)
			_, err = srv.Mint(ctx, &tftypes.MsgMint{Amount: sdk.NewInt64Coin(r.NewTokenDenom, 5), Metadata: mdx})
			must(err)
			_, err = srv.ChangeAdmin(ctx, &tftypes.MsgChangeAdmin{Denom: r.NewTokenDenom, NewAdmin: w.addr(p).String(), Metadata: mdx})
			must(err)
			_, err = srv.Mint(ctx, &tftypes.MsgMint{Amount: sdk.NewInt64Coin(r.NewTokenDenom, 5), Metadata: mdp})
			must(err)
			w.handed[p] = r.NewTokenDenom
		})
	}
	switch kind {
	case "SkSendToRemote":
		once("pool", pool) // B already has a pending transfer; the delivered message adds one for the creator
	case "SkCancelSendToRemote":
		once("pool", pool)
	case "SkConfirmBatch", "SkConfirmBatchForged", "SkEstimateBatchGas":
		if w.done["pool"] {
			panic("the batch must be built before the pool transfers")
		}
		once("batch", batch)
	case "SkBatchSendToRemoteClaim":
		if w.done["pool"] {
			panic("the batch must be built before the pool transfers")
		}
		once("batch", batch)
	case "SkSetERC20ToTokenDenom":
		once("denoms", func() { denoms(5) })
	case "SkSetERC20ToTokenDenomHanded", "TfMintHanded", "TfBurnHanded", "TfChangeAdminHanded", "TfSetDenomMetadataHanded":
		once("handed", handed)
	case "CoAddSignatures", "CoAddGasEstimates", "CoSetPublicAccessData", "CoSetErrorData":
		if w.done["slc"] {
			break
		}
		w.done["slc"] = true
		id, err := a.EvmKeeper.AddSmartContractExecutionToConsensus(ctx, chain, w.compass, &evmtypes.SubmitLogicCall{
			HexContractAddress: "0x00000000000000000000000000000000000000cc", Abi: []byte(slcABI), Payload: common.FromHex("c2985578"),
			Deadline: ctx.BlockTime().Add(time.Hour).Unix(), SenderAddress: w.v2().Addr.Bytes()})
		must(err)
		w.slcID = id
	case "CoAddEvidence":
		if w.done["ref"] {
			break
		}
		w.done["ref"] = true
		id, err := a.ConsensusKeeper.PutMessageInQueue(ctx, refQueue, &evmtypes.ReferenceBlockAttestation{FromBlockTime: ctx.BlockTime().UTC()},
			&cq.PutOptions{RequireSignatures: false, PublicAccessData: []byte{1}})
		must(err)
		w.refID = id
	case "EvRemoveSmartContractDeployment":
		if w.done["sc2"] {
			break
		}
		w.done["sc2"] = true
		// governance proposed a new compass: a deployment record (in flight) and an upload message exist
		sc2, err := a.EvmKeeper.SaveNewSmartContract(ctx, compassABI, append(append([]byte{}, compassBytecode...), 0x00))
		must(err)
		must(a.EvmKeeper.SetAsCompassContract(ctx, sc2))
		w.sc2 = sc2.Id
	case "EvRemoveUserSmartContract", "EvDeployUserSmartContract", "EvUploadUserSmartContract":
		once("usc", func() {
			w.both(func(p int) {
				id, err := a.EvmKeeper.SaveUserSmartContract(ctx, w.valoper(p).String(), &evmtypes.UserSmartContract{Title: fmt.Sprintf("c%d", p), AbiJson: "[]", Bytecode: "0x6001600255", ConstructorInput: "0x01"})
				must(err)
				w.uscID[p] = id
			})
		})
	case "PaRegisterLightNodeClient":
		// both principals bought a licence (the module holds the funds); set-up writes the records directly because
		// CreateLightNodeClientLicense only serves addresses that have no account yet
		coin := sdk.NewInt64Coin(env.BondDenom, 1_000_000)
		once("lic", func() {
			w.both(func(p int) {
				must(a.BankKeeper.SendCoinsFromAccountToModule(ctx, w.funderLN().Addr, palomatypes.ModuleName, sdk.NewCoins(coin)))
				must(a.PalomaKeeper.SetLightNodeClientLicense(ctx, w.addr(p).String(), &palomatypes.LightNodeClientLicense{ClientAddress: w.addr(p).String(), Amount: coin, VestingMonths: 12}))
			})
		})
	case "PaAuthLightNodeClient":
		once("cli", func() {
			w.both(func(p int) {
				must(a.PalomaKeeper.SetLightNodeClient(ctx, w.addr(p).String(), &palomatypes.LightNodeClient{ClientAddress: w.addr(p).String(), ActivatedAt: ctx.BlockTime(), LastAuthAt: ctx.BlockTime()}))
			})
		})
	case "PaSetLegacyLightNodeClients":
		// both principals are legacy light nodes: fee grantees of the light-node granter without a client record
		once("legacy", func() {
			w.both(func(p int) {
				must(a.FeeGrantKeeper.GrantAllowance(ctx, w.granterLN().Addr, w.addr(p), &feegrant.BasicAllowance{SpendLimit: sdk.NewCoins(sdk.NewInt64Coin(env.BondDenom, 1_000_000))}))
			})
		})
	case "TfMint", "TfBurn", "TfChangeAdmin", "TfSetDenomMetadata", "TfCreateDenom":
		once("denoms", func() { denoms(5) })
	case "ScCreateJob", "ScExecuteJob":
		once("jobs", func() {
			w.both(func(p int) {
				id := fmt.Sprintf("job-%d", p)
				must(a.SchedulerKeeper.AddNewJob(ctx, &schedtypes.Job{ID: id, Owner: w.addr(p), Routing: schedtypes.Routing{ChainType: "evm", ChainReferenceID: chain},
					Definition: []byte(jobDef), Payload: []byte(jobPayload)}))
				w.jobID[p] = id
			})
		})
	}
	return nil
}

func jsonStr(v any) string {
	b, err := json.Marshal(v)
	if err != nil {
		return fmt.Sprintf("%v", v)
	}
	return string(b)
}
