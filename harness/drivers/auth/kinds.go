//go:build verif

package auth

import (
	"encoding/hex"
	"fmt"
	"strings"

	"cosmossdk.io/math"
	codectypes "github.com/cosmos/cosmos-sdk/codec/types"
	sdk "github.com/cosmos/cosmos-sdk/types"
	banktypes "github.com/cosmos/cosmos-sdk/x/bank/types"
	"github.com/ethereum/go-ethereum/crypto"
	ctypes "github.com/palomachain/paloma/v2/x/consensus/types"
	evmkeeper "github.com/palomachain/paloma/v2/x/evm/keeper"
	evmtypes "github.com/palomachain/paloma/v2/x/evm/types"
	palomatypes "github.com/palomachain/paloma/v2/x/paloma/types"
	schedtypes "github.com/palomachain/paloma/v2/x/scheduler/types"
	st "github.com/palomachain/paloma/v2/x/skyway/types"
	tftypes "github.com/palomachain/paloma/v2/x/tokenfactory/types"
	treasurytypes "github.com/palomachain/paloma/v2/x/treasury/types"
	valsettypes "github.com/palomachain/paloma/v2/x/valset/types"
	"verifharness/env"
)

// kindURL: the driver's table message kind -> type URL of the sdk.Msg it builds. The trace specification carries
// its own copy (Auth.tla, KindTable); both are compared with the application's registry (Setup.KindTable*).
var kindURL = map[string]string{
	"SkSendToRemote":                  "/palomachain.paloma.skyway.MsgSendToRemote",
	"SkConfirmBatch":                  "/palomachain.paloma.skyway.MsgConfirmBatch",
	"SkConfirmBatchForged":            "/palomachain.paloma.skyway.MsgConfirmBatch",
	"SkEstimateBatchGas":              "/palomachain.paloma.skyway.MsgEstimateBatchGas",
	"SkSendToPalomaClaim":             "/palomachain.paloma.skyway.MsgSendToPalomaClaim",
	"SkBatchSendToRemoteClaim":        "/palomachain.paloma.skyway.MsgBatchSendToRemoteClaim",
	"SkLightNodeSaleClaim":            "/palomachain.paloma.skyway.MsgLightNodeSaleClaim",
	"SkCancelSendToRemote":            "/palomachain.paloma.skyway.MsgCancelSendToRemote",
	"SkBadSigEvidence":                "/palomachain.paloma.skyway.MsgSubmitBadSignatureEvidence",
	"SkBadSigEvidenceSender":          "/palomachain.paloma.skyway.MsgSubmitBadSignatureEvidence",
	"SkUpdateParams":                  "/palomachain.paloma.skyway.MsgUpdateParams",
	"SkNonceOverride":                 "/palomachain.paloma.skyway.MsgNonceOverrideProposal",
	"SkReplenishLostGrains":           "/palomachain.paloma.skyway.MsgReplenishLostGrainsProposal",
	"SkSetERC20Mapping":               "/palomachain.paloma.skyway.MsgSetERC20MappingProposal",
	"SkSetERC20ToTokenDenom":          "/palomachain.paloma.skyway.MsgSetERC20ToTokenDenom",
	"SkSetERC20ToTokenDenomHanded":    "/palomachain.paloma.skyway.MsgSetERC20ToTokenDenom",
	"TfMintHanded":                    "/palomachain.paloma.tokenfactory.MsgMint",
	"TfBurnHanded":                    "/palomachain.paloma.tokenfactory.MsgBurn",
	"TfChangeAdminHanded":             "/palomachain.paloma.tokenfactory.MsgChangeAdmin",
	"TfSetDenomMetadataHanded":        "/palomachain.paloma.tokenfactory.MsgSetDenomMetadata",
	"SkLegacyBatchSendToEthClaim":     "/palomachain.paloma.skyway.MsgBatchSendToEthClaim",
	"CoAddSignatures":                 "/palomachain.paloma.consensus.MsgAddMessagesSignatures",
	"CoAddGasEstimates":               "/palomachain.paloma.consensus.MsgAddMessageGasEstimates",
	"CoAddEvidence":                   "/palomachain.paloma.consensus.MsgAddEvidence",
	"CoSetPublicAccessData":           "/palomachain.paloma.consensus.MsgSetPublicAccessData",
	"CoSetErrorData":                  "/palomachain.paloma.consensus.MsgSetErrorData",
	"EvRemoveSmartContractDeployment": "/palomachain.paloma.evm.MsgRemoveSmartContractDeploymentRequest",
	"EvDeployNewSmartContract":        "/palomachain.paloma.evm.MsgDeployNewSmartContractProposalV2",
	"EvProposeReferenceBlock":         "/palomachain.paloma.evm.MsgProposeNewReferenceBlockAttestation",
	"EvUploadUserSmartContract":       "/palomachain.paloma.evm.MsgUploadUserSmartContractRequest",
	"EvRemoveUserSmartContract":       "/palomachain.paloma.evm.MsgRemoveUserSmartContractRequest",
	"EvDeployUserSmartContract":       "/palomachain.paloma.evm.MsgDeployUserSmartContractRequest",
	"PaAddStatusUpdate":               "/palomachain.paloma.paloma.MsgAddStatusUpdate",
	"PaRegisterLightNodeClient":       "/palomachain.paloma.paloma.MsgRegisterLightNodeClient",
	"PaAddLicenseFor":                 "/palomachain.paloma.paloma.MsgAddLightNodeClientLicense",
	"PaAddLicenseNew":                 "/palomachain.paloma.paloma.MsgAddLightNodeClientLicense",
	"PaAuthLightNodeClient":           "/palomachain.paloma.paloma.MsgAuthLightNodeClient",
	"PaSetLegacyLightNodeClients":     "/palomachain.paloma.paloma.MsgSetLegacyLightNodeClients",
	"PaUpdateParams":                  "/palomachain.paloma.paloma.MsgUpdateParams",
	"TfCreateDenom":                   "/palomachain.paloma.tokenfactory.MsgCreateDenom",
	"TfMint":                          "/palomachain.paloma.tokenfactory.MsgMint",
	"TfBurn":                          "/palomachain.paloma.tokenfactory.MsgBurn",
	"TfChangeAdmin":                   "/palomachain.paloma.tokenfactory.MsgChangeAdmin",
	"TfSetDenomMetadata":              "/palomachain.paloma.tokenfactory.MsgSetDenomMetadata",
	"TfUpdateParams":                  "/palomachain.paloma.tokenfactory.MsgUpdateParams",
	"ScCreateJob":                     "/palomachain.paloma.scheduler.MsgCreateJob",
	"ScExecuteJob":                    "/palomachain.paloma.scheduler.MsgExecuteJob",
	"VaAddExternalChainInfo":          "/palomachain.paloma.valset.MsgAddExternalChainInfoForValidator",
	"VaKeepAlive":                     "/palomachain.paloma.valset.MsgKeepAlive",
	"TrUpsertRelayerFee":              "/palomachain.paloma.treasury.MsgUpsertRelayerFee",
}

// build returns the message of one tuple: Metadata.Signers = {signer}, Metadata.Creator = creator, and every
// identity-bearing field of the body (or the object the body refers to) names the principal `n`.
func (w *world) build(kind string, s, c, n int) sdk.Msg {
	md := valsettypes.MsgMetadata{Creator: w.addr(c).String(), Signers: []string{w.addr(s).String()}}
	nAddr := w.addr(n).String()
	nEth := ethAddr(w.ethOf(n)).Hex()
	claimNonce := w.nextNonc
	switch kind {
	case "SkSendToRemote":
		return &st.MsgSendToRemote{EthDest: "0x00000000000000000000000000000000000000bb", Amount: sdk.NewInt64Coin(env.BondDenom, 500), ChainReferenceId: chain, Metadata: md}
	case "SkConfirmBatch", "SkConfirmBatchForged":
		nonce, contract := uint64(1), bridgeERC20
		cp := make([]byte, 32)
		if w.batch != nil {
			nonce, contract = w.batch.BatchNonce, w.batch.TokenContract.GetAddress().Hex()
			var err error
			cp, err = w.batch.GetCheckpoint(w.compass)
			must(err)
		}
		key := w.ethOf(n) // the named validator's own external signature over the exact batch
		if kind == "SkConfirmBatchForged" {
			key = w.ethOf(c) // the creator's key, claiming to be the named validator's
		}
		sig, err := st.NewEthereumSignature(cp, key)
		must(err)
		return &st.MsgConfirmBatch{Nonce: nonce, TokenContract: contract, EthSigner: nEth, Orchestrator: nAddr, Signature: hex.EncodeToString(sig), Metadata: md}
	case "SkEstimateBatchGas":
		nonce, contract := uint64(1), bridgeERC20
		if w.batch != nil {
			nonce, contract = w.batch.BatchNonce, w.batch.TokenContract.GetAddress().Hex()
		}
		return &st.MsgEstimateBatchGas{Metadata: md, Nonce: nonce, TokenContract: contract, EthSigner: nEth, Estimate: 21000}
	case "SkSendToPalomaClaim":
		return &st.MsgSendToPalomaClaim{EventNonce: claimNonce, EthBlockHeight: 77, TokenContract: bridgeERC20, Amount: math.NewInt(5),
			EthereumSender: "0x00000000000000000000000000000000000000bb", PalomaReceiver: w.v2().Addr.String(), Orchestrator: nAddr,
			ChainReferenceId: chain, Metadata: md, SkywayNonce: claimNonce, CompassId: w.compass}
	case "SkBatchSendToRemoteClaim":
		bn := uint64(1)
		if w.batch != nil {
			bn = w.batch.BatchNonce
		}
		return &st.MsgBatchSendToRemoteClaim{EventNonce: claimNonce, EthBlockHeight: 77, BatchNonce: bn, TokenContract: bridgeERC20, ChainReferenceId: chain,
			Orchestrator: nAddr, Metadata: md, SkywayNonce: claimNonce, CompassId: w.compass}
	case "SkLegacyBatchSendToEthClaim":
		return &st.MsgBatchSendToEthClaim{EventNonce: claimNonce, EthBlockHeight: 77, BatchNonce: 1, TokenContract: bridgeERC20, ChainReferenceId: chain,
			Orchestrator: nAddr, Metadata: md, SkywayNonce: claimNonce}
	case "SkLightNodeSaleClaim":
		return &st.MsgLightNodeSaleClaim{Metadata: md, EventNonce: claimNonce, EthBlockHeight: 77, Orchestrator: nAddr, ChainReferenceId: chain, SkywayNonce: claimNonce,
			ClientAddress: sdk.AccAddress(crypto.Keccak256([]byte("verif-auth-sale-client"))[:20]).String(), Amount: math.NewInt(3),
			SmartContractAddress: "0x00000000000000000000000000000000005a1e00", CompassId: w.compass}
	case "SkCancelSendToRemote":
		id, ok := w.xferID[n]
		if !ok {
			id = 999 // governance has no transfer
		}
		return &st.MsgCancelSendToRemote{TransactionId: id, Metadata: md}
	case "SkBadSigEvidence", "SkBadSigEvidenceSender":
		// a batch that never existed, signed with an external key: the named validator's own key (evidence against the
		// named validator) or, for the legacy Sender variant, the creator's own key with Sender naming somebody else
		signer, sender := n, c
		if kind == "SkBadSigEvidenceSender" {
			signer, sender = c, n
		}
		fake := st.OutgoingTxBatch{BatchNonce: 4242, BatchTimeout: 12345, TokenContract: bridgeERC20, ChainReferenceId: chain,
			Assignee: w.e.Vals[2].ValAddr.String(), AssigneeRemoteAddress: ethAddr(w.eth[2]).Bytes(),
			Transactions: []st.OutgoingTransferTx{{Id: 999, Sender: w.v2().Addr.String(), DestAddress: "0x00000000000000000000000000000000000000aa",
				Erc20Token: st.ERC20Token{Contract: bridgeERC20, Amount: math.NewInt(1), ChainReferenceId: chain}, BridgeTaxAmount: math.ZeroInt()}}}
		ib, err := fake.ToInternal()
		must(err)
		cp, err := ib.GetCheckpoint(w.compass)
		must(err)
		sig, err := st.NewEthereumSignature(cp, w.ethOf(signer))
		must(err)
		subj, err := codectypes.NewAnyWithValue(&fake)
		must(err)
		return &st.MsgSubmitBadSignatureEvidence{Subject: subj, Signature: hex.EncodeToString(sig), Sender: w.addr(sender).String(), ChainReferenceId: chain, Metadata: md}
	case "SkUpdateParams":
		return &st.MsgUpdateParams{Authority: nAddr, Params: st.Params{}, Metadata: md}
	case "SkNonceOverride":
		return &st.MsgNonceOverrideProposal{Metadata: md, ChainReferenceId: chain, Nonce: 7}
	case "SkReplenishLostGrains":
		return &st.MsgReplenishLostGrainsProposal{Metadata: md}
	case "SkSetERC20Mapping":
		return &st.MsgSetERC20MappingProposal{Metadata: md, Authority: nAddr,
			Mappings: []st.MsgSetERC20MappingProposal_ERC20ToDenomMapping{{ChainReferenceId: chain, Erc20: "0x3333333333333333333333333333333333333333", Denom: "uother"}}}
	case "SkSetERC20ToTokenDenom":
		d, ok := w.denom[n]
		if !ok {
			d = "factory/" + nAddr + "/sa"
		}
		return &st.MsgSetERC20ToTokenDenom{Metadata: md, Denom: d, ChainReferenceId: chain, Erc20: factoryERC20}
	case "CoAddSignatures":
		bts := make([]byte, 32)
		if m := w.queued(slcQueue, w.slcID); m != nil {
			b, err := m.GetBytesToSign(w.e.App.AppCodec())
			must(err)
			bts = b
		}
		sig, err := crypto.Sign(crypto.Keccak256(append([]byte(evmkeeper.SignaturePrefix), bts...)), w.ethOf(n))
		must(err)
		return &ctypes.MsgAddMessagesSignatures{Metadata: md, SignedMessages: []*ctypes.ConsensusMessageSignature{{Id: w.slcID, QueueTypeName: slcQueue, Signature: sig, SignedByAddress: nEth}}}
	case "CoAddGasEstimates":
		return &ctypes.MsgAddMessageGasEstimates{Metadata: md, Estimates: []*ctypes.MsgAddMessageGasEstimates_GasEstimate{{MsgId: w.slcID, QueueTypeName: slcQueue, Value: 21000, EstimatedByAddress: nEth}}}
	case "CoAddEvidence":
		proof, err := codectypes.NewAnyWithValue(&evmtypes.ReferenceBlockAttestationRes{BlockHeight: 130, BlockHash: fmt.Sprintf("0x%064x", 130)})
		must(err)
		return &ctypes.MsgAddEvidence{Metadata: md, Proof: proof, MessageID: w.refID, QueueTypeName: refQueue}
	case "CoSetPublicAccessData":
		return &ctypes.MsgSetPublicAccessData{Metadata: md, MessageID: w.slcID, QueueTypeName: slcQueue, Data: []byte{0xab}, ValsetID: 1}
	case "CoSetErrorData":
		return &ctypes.MsgSetErrorData{Metadata: md, MessageID: w.slcID, QueueTypeName: slcQueue, Data: []byte{0xee}}
	case "EvRemoveSmartContractDeployment":
		return &evmtypes.MsgRemoveSmartContractDeploymentRequest{SmartContractID: w.sc2, ChainReferenceID: chain, Metadata: md}
	case "EvDeployNewSmartContract":
		return &evmtypes.MsgDeployNewSmartContractProposalV2{Metadata: md, Authority: nAddr, AbiJSON: compassABI, BytecodeHex: "0x" + hex.EncodeToString(append(append([]byte{}, compassBytecode...), 0x01))}
	case "EvProposeReferenceBlock":
		return &evmtypes.MsgProposeNewReferenceBlockAttestation{Metadata: md, Authority: nAddr, ChainReferenceId: chain, BlockHeight: 500, BlockHash: fmt.Sprintf("0x%064x", 500)}
	case "EvUploadUserSmartContract":
		return &evmtypes.MsgUploadUserSmartContractRequest{Metadata: md, Title: "new", AbiJson: "[]", Bytecode: "0x6001600255", ConstructorInput: "0x02"}
	case "EvRemoveUserSmartContract":
		return &evmtypes.MsgRemoveUserSmartContractRequest{Metadata: md, Id: w.uscOf(n)}
	case "EvDeployUserSmartContract":
		return &evmtypes.MsgDeployUserSmartContractRequest{Metadata: md, Id: w.uscOf(n), TargetChain: chain}
	case "PaAddStatusUpdate":
		return &palomatypes.MsgAddStatusUpdate{Status: "verif", Level: palomatypes.MsgAddStatusUpdate_LEVEL_INFO, Metadata: md}
	case "PaRegisterLightNodeClient":
		return &palomatypes.MsgRegisterLightNodeClient{Metadata: md}
	case "PaAddLicenseFor":
		return &palomatypes.MsgAddLightNodeClientLicense{Metadata: md, ClientAddress: nAddr, Amount: sdk.NewInt64Coin(env.BondDenom, 1_000_000), VestingMonths: 12}
	case "PaAddLicenseNew":
		fresh := sdk.AccAddress(crypto.Keccak256([]byte("verif-auth-fresh-client"))[:20])
		return &palomatypes.MsgAddLightNodeClientLicense{Metadata: md, ClientAddress: fresh.String(), Amount: sdk.NewInt64Coin(env.BondDenom, 1_000_000), VestingMonths: 12}
	case "PaAuthLightNodeClient":
		return &palomatypes.MsgAuthLightNodeClient{Metadata: md}
	case "PaSetLegacyLightNodeClients":
		return &palomatypes.MsgSetLegacyLightNodeClients{Metadata: md}
	case "PaUpdateParams":
		return &palomatypes.MsgUpdateParams{Authority: nAddr, Params: palomatypes.Params{GasExemptAddresses: []string{w.v2().Addr.String()}}, Metadata: md}
	// ---- ownership handed over: the denom whose CURRENT admin is the named principal; its name carries the other
	// principal (the original creator, who gave the admin role away)
	case "SkSetERC20ToTokenDenomHanded":
		return &st.MsgSetERC20ToTokenDenom{Metadata: md, Denom: w.handedOf(n), ChainReferenceId: chain, Erc20: factoryERC20}
	case "TfMintHanded":
		return &tftypes.MsgMint{Amount: sdk.NewInt64Coin(w.handedOf(n), 2), Metadata: md}
	case "TfBurnHanded":
		return &tftypes.MsgBurn{Amount: sdk.NewInt64Coin(w.handedOf(n), 2), Metadata: md}
	case "TfChangeAdminHanded":
		return &tftypes.MsgChangeAdmin{Denom: w.handedOf(n), NewAdmin: w.v2().Addr.String(), Metadata: md}
	case "TfSetDenomMetadataHanded":
		d := w.handedOf(n)
		return &tftypes.MsgSetDenomMetadata{Metadata: md, DenomMetadata: banktypes.Metadata{Description: "set", Base: d, Display: d, Name: "N", Symbol: "SET",
			DenomUnits: []*banktypes.DenomUnit{{Denom: d, Exponent: 0}}}}
	case "TfCreateDenom":
		return &tftypes.MsgCreateDenom{Subdenom: "sb", Metadata: md}
	case "TfMint":
		return &tftypes.MsgMint{Amount: sdk.NewInt64Coin(w.denomOf(n), 2), Metadata: md}
	case "TfBurn":
		return &tftypes.MsgBurn{Amount: sdk.NewInt64Coin(w.denomOf(n), 2), Metadata: md}
	case "TfChangeAdmin":
		return &tftypes.MsgChangeAdmin{Denom: w.denomOf(n), NewAdmin: w.v2().Addr.String(), Metadata: md}
	case "TfSetDenomMetadata":
		d := w.denomOf(n)
		return &tftypes.MsgSetDenomMetadata{Metadata: md, DenomMetadata: banktypes.Metadata{Description: "set", Base: d, Display: d, Name: "N", Symbol: "SET",
			DenomUnits: []*banktypes.DenomUnit{{Denom: d, Exponent: 0}}}}
	case "TfUpdateParams":
		return &tftypes.MsgUpdateParams{Authority: nAddr, Params: tftypes.Params{DenomCreationFee: sdk.NewCoins(sdk.NewInt64Coin(env.BondDenom, 7))}, Metadata: md}
	case "ScCreateJob":
		return &schedtypes.MsgCreateJob{Metadata: md, Job: &schedtypes.Job{ID: "job-new", Owner: w.addr(n), Routing: schedtypes.Routing{ChainType: "evm", ChainReferenceID: chain},
			Definition: []byte(jobDef), Payload: []byte(jobPayload)}}
	case "ScExecuteJob":
		id, ok := w.jobID[n]
		if !ok {
			id = "job-none"
		}
		return &schedtypes.MsgExecuteJob{JobID: id, Metadata: md}
	case "VaAddExternalChainInfo":
		// the creator's fresh key if it names itself; otherwise the external account the named validator registered
		// (the bystander's for Gov)
		ea := ethAddr(w.ethOf(n))
		switch {
		case n == c && n != pGov:
			ea = ethAddr(w.newEth[n-1])
		case n == pGov:
			ea = ethAddr(w.eth[2])
		}
		return &valsettypes.MsgAddExternalChainInfoForValidator{Metadata: md, ChainInfos: []*valsettypes.ExternalChainInfo{{ChainType: "evm", ChainReferenceID: chain, Address: ea.Hex(), Pubkey: ea.Bytes()}}}
	case "VaKeepAlive":
		return &valsettypes.MsgKeepAlive{PigeonVersion: pigeonVer, Metadata: md}
	case "TrUpsertRelayerFee":
		return &treasurytypes.MsgUpsertRelayerFee{Metadata: md, FeeSetting: &treasurytypes.RelayerFeeSetting{ValAddress: w.valoper(n).String(),
			Fees: []treasurytypes.RelayerFeeSetting_FeeSetting{{Multiplicator: math.LegacyMustNewDecFromStr("7.5"), ChainReferenceId: chain}}}}
	}
	panic("unknown kind " + kind)
}

// ---- key collisions ------------------------------------------------------------------------------------------
// keyVariant spells the key of an existing object differently: "eq" byte for byte, "case" with the letter case changed
// (upper case if the key has no upper-case letter, lower case otherwise), "lws" / "tws" with a leading / trailing blank,
// "dot" with a "./" segment, "dotdot" with a "x/../" segment in front.
func keyVariant(key, v string) string {
	switch v {
	case "eq":
		return key
	case "case":
		if key == strings.ToLower(key) {
			return strings.ToUpper(key)
		}
		return strings.ToLower(key)
	case "lws":
		return " " + key
	case "tws":
		return key + " "
	case "dot":
		return "./" + key
	case "dotdot":
		return "x/../" + key
	}
	panic("unknown key variant " + v)
}

// buildK is build for the kinds that create or upsert an object under a sender-chosen key: the key is variant v of the
// key of the object the principal n already owns. It also returns the key used.
func (w *world) buildK(kind string, s, c, n int, v string) (sdk.Msg, string) {
	md := valsettypes.MsgMetadata{Creator: w.addr(c).String(), Signers: []string{w.addr(s).String()}}
	switch kind {
	case "ScCreateJob": // n's job id
		key := keyVariant(w.jobID[n], v)
		return &schedtypes.MsgCreateJob{Metadata: md, Job: &schedtypes.Job{ID: key, Owner: w.addr(c), Routing: schedtypes.Routing{ChainType: "evm", ChainReferenceID: chain},
			Definition: []byte(`{"abi":"5b5d","address":"0x00000000000000000000000000000000000000dd"}`), Payload: []byte(`{"hexPayload":"deadbeef"}`), IsPayloadModifiable: true}}, key
	case "TfCreateDenom": // n's sub-denom "sa"; the path variants walk from the creator's namespace into n's
		key := keyVariant("sa", v)
		if v == "dotdot" {
			key = "../" + w.addr(n).String() + "/sa"
		}
		return &tftypes.MsgCreateDenom{Subdenom: key, Metadata: md}, key
	case "SkSetERC20ToTokenDenom": // the creator's unbound denom "su" onto the ERC-20 n's denom is bound to
		key := keyVariant(boundERC20(n), v)
		return &st.MsgSetERC20ToTokenDenom{Metadata: md, Denom: "factory/" + w.addr(c).String() + "/su", ChainReferenceId: chain, Erc20: key}, key
	case "PaAddLicenseFor": // n's address (n holds a licence)
		key := keyVariant(w.addr(n).String(), v)
		return &palomatypes.MsgAddLightNodeClientLicense{Metadata: md, ClientAddress: key, Amount: sdk.NewInt64Coin(env.BondDenom, 1_000_000), VestingMonths: 12}, key
	case "VaAddExternalChainInfo": // n's registered external address, with the creator's fresh public key
		key := keyVariant(ethAddr(w.ethOf(n)).Hex(), v)
		pk := ethAddr(w.newEth[c-1]).Bytes()
		return &valsettypes.MsgAddExternalChainInfoForValidator{Metadata: md, ChainInfos: []*valsettypes.ExternalChainInfo{{ChainType: "evm", ChainReferenceID: chain, Address: key, Pubkey: pk}}}, key
	case "TrUpsertRelayerFee": // n's validator address
		key := keyVariant(w.valoper(n).String(), v)
		return &treasurytypes.MsgUpsertRelayerFee{Metadata: md, FeeSetting: &treasurytypes.RelayerFeeSetting{ValAddress: key,
			Fees: []treasurytypes.RelayerFeeSetting_FeeSetting{{Multiplicator: math.LegacyMustNewDecFromStr("7.5"), ChainReferenceId: chain}}}}, key
	case "TfSetDenomMetadata": // n's denom as the base of the metadata; path variants inside the factory path
		d := w.denomOf(n)
		key := keyVariant(d, v)
		switch v {
		case "dot":
			key = "factory/./" + strings.TrimPrefix(d, "factory/")
		case "dotdot":
			key = "factory/" + w.addr(c).String() + "/../" + strings.TrimPrefix(d, "factory/")
		}
		return &tftypes.MsgSetDenomMetadata{Metadata: md, DenomMetadata: banktypes.Metadata{Description: "set", Base: key, Display: key, Name: "N", Symbol: "SET",
			DenomUnits: []*banktypes.DenomUnit{{Denom: key, Exponent: 0}}}}, key
	}
	panic("kind without a sender-chosen key: " + kind)
}

// boundERC20: the ERC-20 contract the denom factory/<p>/sa is bound to in the key-collision world.
func boundERC20(p int) string {
	return fmt.Sprintf("0x%040x", 0xabcdef0000+p) // hex letters, so that a case variant exists
}

func (w *world) uscOf(n int) uint64 {
	if id, ok := w.uscID[n]; ok {
		return id
	}
	return 999
}

// handedOf: the factory denom whose admin role was handed to n (a denom nobody created for Gov).
func (w *world) handedOf(n int) string {
	if d, ok := w.handed[n]; ok {
		return d
	}
	return "factory/" + w.addr(n).String() + "/sh"
}

func (w *world) denomOf(n int) string {
	if d, ok := w.denom[n]; ok {
		return d
	}
	return "factory/" + w.addr(n).String() + "/sa"
}

func (w *world) queued(queue string, id uint64) ctypes.QueuedSignedMessageI {
	ms, err := w.e.App.ConsensusKeeper.GetMessagesFromQueue(w.e.Ctx(), queue, 0)
	if err != nil {
		return nil
	}
	for _, m := range ms {
		if m.GetId() == id {
			return m
		}
	}
	return nil
}
