//go:build verif

// Driver for specs/RelayGate.tla (C14): executes TLC-generated histories against the real keepers
// (E1 environment) and records the projection of the real stores after every atomic step.
//
//	tables      valset.SetExternalChainInfoState / treasury.SetRelayerFee / valset.TriggerSnapshotBuild
//	            (metrix records are created by the real OnSnapshotBuilt listener; the keeper offers no
//	            removal, a missing record is produced by deleting the raw store entry)
//	assignment  evm.AddSmartContractExecutionToConsensus at a chosen block time
//	queue       consensus.PutMessageInQueue (other producers), consensus msg server AddMessageEstimates /
//	            SetPublicAccessData / SetErrorData, consensus.CheckAndProcessEstimatedMessages (end-blocker)
//	gate        consensus.GetMessagesForRelaying for EVERY validator
//
// The target chain "eth-b" is supported but not active (a chain being onboarded), "eth-a" is active: snapshot
// membership requires an account on eth-a only, so that every combination of the tables is reachable through
// the real snapshot build.
package relaygate

import (
	"encoding/json"
	"fmt"
	"math/big"
	"os"
	"runtime/debug"
	"sort"
	"strings"
	"testing"
	"time"

	"cosmossdk.io/math"
	codectypes "github.com/cosmos/cosmos-sdk/codec/types"
	"cosmossdk.io/store/prefix"
	sdk "github.com/cosmos/cosmos-sdk/types"
	"github.com/ethereum/go-ethereum/crypto"
	"github.com/palomachain/paloma/v2/x/consensus/keeper/consensus"
	consensuskeeper "github.com/palomachain/paloma/v2/x/consensus/keeper"
	consensustypes "github.com/palomachain/paloma/v2/x/consensus/types"
	evmtypes "github.com/palomachain/paloma/v2/x/evm/types"
	metrixtypes "github.com/palomachain/paloma/v2/x/metrix/types"
	treasurytypes "github.com/palomachain/paloma/v2/x/treasury/types"
	valsettypes "github.com/palomachain/paloma/v2/x/valset/types"
	"verifharness/drv"
	"verifharness/env"
)

const (
	home   = "eth-a"
	target = "eth-b"
	nVals  = 6
	scale  = 100
)

var (
	queueName     = consensustypes.Queue("evm-turnstone-message", "evm", target)
	queueNameHome = consensustypes.Queue("evm-turnstone-message", "evm", home)
)

type world struct {
	e    *env.E1
	vals []env.Val // sorted by operator address string: index+1 = model id, integer order = address order
	alt  []string  // alternate target-chain address per validator
	srv  consensustypes.MsgServer
}

func newWorld() *world {
	powers := make([]int64, nVals)
	for i := range powers {
		powers[i] = 10
	}
	e := env.NewE1(env.E1Options{Seed: drv.Seed(), Chains: []string{home, target}, Powers: powers, NoActive: true})
	if err := e.Evm.ActivateChainReferenceID(e.Ctx, home, &evmtypes.SmartContract{Id: 1}, "0x00000000000000000000000000000000c0de0001", []byte("compass-eth-a-1")); err != nil {
		panic(err)
	}
	if err := e.Treasury.SetCommunityFundFee(e.Ctx, "0.01"); err != nil {
		panic(err)
	}
	if err := e.Treasury.SetSecurityFee(e.Ctx, "0.33"); err != nil {
		panic(err)
	}
	w := &world{e: e, srv: consensuskeeper.NewMsgServerImpl(*e.Consensus)}
	w.vals = append(w.vals, e.Vals...)
	sort.Slice(w.vals, func(i, j int) bool { return strings.Compare(w.vals[i].Val.String(), w.vals[j].Val.String()) < 0 })
	for i := range w.vals {
		k, err := crypto.ToECDSA(crypto.Keccak256([]byte(fmt.Sprintf("verif-relaygate-alt-%d-%d", drv.Seed(), i))))
		if err != nil {
			panic(err)
		}
		w.alt = append(w.alt, crypto.PubkeyToAddress(k.PublicKey).Hex())
	}
	if _, err := e.Valset.TriggerSnapshotBuild(e.Ctx); err != nil {
		panic(err)
	}
	return w
}

type row struct {
	Home bool `json:"home"`
	Acct int  `json:"acct"`
	MevH bool `json:"mevH"` // MEV trait of the home chain account
	MevT bool `json:"mevT"` // MEV trait of the target chain account
	Fee  int  `json:"fee"`  // multiplicator x100 on record for the target chain (0: none)
	FeeH int  `json:"feeH"` // multiplicator x100 on record for the home chain (0: none)
	Perf bool `json:"perf"`
}

type args struct {
	Rows  []row  `json:"rows"`
	V     int    `json:"v"`
	Acct  int    `json:"acct"`
	Mev   bool   `json:"mev"`
	MevH  bool   `json:"mevH"`
	MevT  bool   `json:"mevT"`
	C     string `json:"c"`
	S     int    `json:"s"`
	T     int    `json:"t"`
	Kind  string `json:"kind"`
	A     int    `json:"a"`
	Ne    bool   `json:"ne"`
	ID    int    `json:"id"`
	G     int    `json:"g"`
	N     int    `json:"n"`
	Stage string `json:"stage"`
	Proc  string `json:"proc"`
	W     int    `json:"w"`
	F     int    `json:"f"`
}

type run struct {
	w       *world
	ctx     sdk.Context
	h       int
	i       int
	created []uint64 // real ids of the messages created in this history, in order (model id k = created[k-1])
	em      *drv.Emitter
	base    time.Time
}

func (r *run) addrOf(v int, acct int) string {
	if acct == 2 {
		return r.w.alt[v]
	}
	return r.w.vals[v].EthAddr.Hex()
}

func traitsOf(mev bool) []string {
	if mev {
		return []string{valsettypes.PIGEON_TRAIT_MEV}
	}
	return nil
}

// infos builds the registration of validator v: traits are per chain account.
func (r *run) infos(v int, isHome bool, acct int, mevH, mevT bool) []*valsettypes.ExternalChainInfo {
	var out []*valsettypes.ExternalChainInfo
	if isHome {
		a := r.w.vals[v].EthAddr
		out = append(out, &valsettypes.ExternalChainInfo{ChainType: "evm", ChainReferenceID: home, Address: a.Hex(), Pubkey: a.Bytes(), Traits: traitsOf(mevH)})
	}
	if acct != 0 {
		a := r.addrOf(v, acct)
		out = append(out, &valsettypes.ExternalChainInfo{ChainType: "evm", ChainReferenceID: target, Address: a, Pubkey: []byte(a), Traits: traitsOf(mevT)})
	}
	return out
}

func must(err error) {
	if err != nil {
		panic(err)
	}
}

func dec100(n int) math.LegacyDec { return math.LegacyNewDecWithPrec(int64(n), 2) }

// setFee writes the fee record of validator v: one entry per chain with a multiplicator (0: no entry for that chain).
func (r *run) setFee(v int, fee, feeH int) {
	val := r.w.vals[v].Val
	fees := []treasurytypes.RelayerFeeSetting_FeeSetting{}
	if feeH != 0 {
		fees = append(fees, treasurytypes.RelayerFeeSetting_FeeSetting{Multiplicator: dec100(feeH), ChainReferenceId: home})
	}
	if fee != 0 {
		fees = append(fees, treasurytypes.RelayerFeeSetting_FeeSetting{Multiplicator: dec100(fee), ChainReferenceId: target})
	}
	must(r.w.e.Treasury.SetRelayerFee(r.ctx, val, &treasurytypes.RelayerFeeSetting{ValAddress: val.String(), Fees: fees}))
}

// feesOf reads the multiplicators (x100) validator v has on record for the target and the home chain.
func (r *run) feesOf(v int) (fee, feeH int) {
	ft, err := r.w.e.Treasury.GetRelayerFeesByChainReferenceID(r.ctx, target)
	must(err)
	fh, err := r.w.e.Treasury.GetRelayerFeesByChainReferenceID(r.ctx, home)
	must(err)
	if d, ok := ft[r.w.vals[v].Val.String()]; ok {
		fee = dec100Int(d)
	}
	if d, ok := fh[r.w.vals[v].Val.String()]; ok {
		feeH = dec100Int(d)
	}
	return
}

func (r *run) dropMetrics(v int) {
	st := prefix.NewStore(r.ctx.KVStore(r.w.e.Keys[metrixtypes.StoreKey]), []byte(metrixtypes.MetricsStorePrefix))
	st.Delete(r.w.vals[v].Val.Bytes())
}

// curOf reads the current registration of validator v.
func (r *run) curOf(v int) (isHome bool, acct int, mevH, mevT bool) {
	infos, err := r.w.e.Valset.GetValidatorChainInfos(r.ctx, r.w.vals[v].Val)
	must(err)
	return r.project(v, infos)
}

func hasMev(ci *valsettypes.ExternalChainInfo) bool {
	for _, t := range ci.Traits {
		if t == valsettypes.PIGEON_TRAIT_MEV {
			return true
		}
	}
	return false
}

func (r *run) addrID(v int, a string) int {
	switch {
	case a == "":
		return 0
	case strings.EqualFold(a, r.w.vals[v].EthAddr.Hex()):
		return 1
	case strings.EqualFold(a, r.w.alt[v]):
		return 2
	}
	return 9
}

func (r *run) project(v int, infos []*valsettypes.ExternalChainInfo) (isHome bool, acct int, mevH, mevT bool) {
	for _, ci := range infos {
		switch ci.ChainReferenceID {
		case home:
			isHome = true
			mevH = hasMev(ci)
		case target:
			acct = r.addrID(v, ci.Address)
			mevT = hasMev(ci)
		}
	}
	return
}

func (r *run) valIdx(s string) int {
	for i, v := range r.w.vals {
		if v.Val.String() == s {
			return i + 1
		}
	}
	return 0
}

func (r *run) valIdxBytes(b []byte) int {
	for i, v := range r.w.vals {
		if v.Val.Equals(sdk.ValAddress(b)) {
			return i + 1
		}
	}
	return 0
}

func small(u uint64) int {
	if u > 1<<30 {
		return 1 << 30
	}
	return int(u)
}

func dec100Int(d math.LegacyDec) int {
	if d.IsNil() {
		return 0
	}
	x := d.MulInt64(scale)
	if !x.IsInteger() || x.IsNegative() || x.GT(math.LegacyNewDec(1<<30)) {
		return -1
	}
	return int(x.TruncateInt64())
}

func (r *run) observe() map[string]any {
	e := r.w.e
	ctx := r.ctx
	o := map[string]any{}
	snap, err := e.Valset.GetCurrentSnapshot(ctx)
	must(err)
	fees, err := e.Treasury.GetRelayerFeesByChainReferenceID(ctx, target)
	must(err)
	feesH, err := e.Treasury.GetRelayerFeesByChainReferenceID(ctx, home)
	must(err)
	var snapO, curO []any
	var feeO, feeHO, featO []int
	var perfO []bool
	uniform := true
	var ref *metrixtypes.ValidatorMetrics
	for i, v := range r.w.vals {
		so := map[string]any{"member": false, "acct": 0, "mevH": false, "mevT": false}
		if snap != nil {
			for _, sv := range snap.Validators {
				if sv.Address.Equals(v.Val) {
					_, a, mh, mt := r.project(i, sv.ExternalChainInfos)
					so = map[string]any{"member": true, "acct": a, "mevH": mh, "mevT": mt}
				}
			}
		}
		snapO = append(snapO, so)
		h, a, mh, mt := r.curOf(i)
		curO = append(curO, map[string]any{"home": h, "acct": a, "mevH": mh, "mevT": mt})
		f, fh := 0, 0
		if d, ok := fees[v.Val.String()]; ok {
			f = dec100Int(d)
		}
		if d, ok := feesH[v.Val.String()]; ok {
			fh = dec100Int(d)
		}
		feeO = append(feeO, f)
		feeHO = append(feeHO, fh)
		rec, err := e.Metrix.GetValidatorMetrics(ctx, v.Val)
		must(err)
		perfO = append(perfO, rec != nil)
		ft := -1
		if rec != nil {
			ft = dec100Int(rec.FeatureSet)
			if ref == nil {
				ref = rec
			} else if !rec.Uptime.Equal(ref.Uptime) || !rec.SuccessRate.Equal(ref.SuccessRate) || !rec.ExecutionTime.Equal(ref.ExecutionTime) {
				uniform = false
			}
		}
		featO = append(featO, ft)
	}
	o["snap"], o["cur"], o["fee"], o["feeh"], o["perf"], o["feat"], o["uniform"] = snapO, curO, feeO, feeHO, perfO, featO, uniform
	tf, err := e.Treasury.GetFees(ctx)
	must(err)
	cf, _ := math.LegacyNewDecFromStr(tf.CommunityFundFee)
	sf, _ := math.LegacyNewDecFromStr(tf.SecurityFee)
	o["comm"], o["sec"] = dec100Int(cf), dec100Int(sf)
	o["tmod"] = int(ctx.BlockTime().Unix() % 60)
	msgs, err := e.Consensus.GetMessagesFromQueue(ctx, queueName, 0)
	must(err)
	q := []any{}
	for _, m := range msgs {
		q = append(q, r.msgObs(m))
	}
	o["queue"] = q
	// logic calls on the home chain's queue (validator-set updates published by snapshot builds live there too: not projected)
	msgsH, err := e.Consensus.GetMessagesFromQueue(ctx, queueNameHome, 0)
	must(err)
	qh := []any{}
	for _, m := range msgsH {
		if mo := r.msgObs(m); mo["kind"] == "slc" {
			qh = append(qh, mo)
		}
	}
	o["queueh"] = qh
	return o
}

func (r *run) msgObs(m consensustypes.QueuedSignedMessageI) map[string]any {
	cm, err := m.ConsensusMsg(r.w.e.Cdc)
	must(err)
	em := cm.(*evmtypes.Message)
	kind, sender := "other", 0
	fees := []int{0, 0, 0}
	mev, retries := false, 0
	switch a := em.Action.(type) {
	case *evmtypes.Message_SubmitLogicCall:
		kind = "slc"
		mev = a.SubmitLogicCall.ExecutionRequirements.EnforceMEVRelay
		retries = int(a.SubmitLogicCall.Retries)
		fmt.Sscanf(string(a.SubmitLogicCall.SenderAddress), "sender-%d", &sender)
		if f := a.SubmitLogicCall.Fees; f != nil {
			fees = []int{small(f.RelayerFee), small(f.CommunityFee), small(f.SecurityFee)}
		}
	case *evmtypes.Message_UpdateValset:
		kind = "valset"
	}
	as := r.valIdx(em.Assignee)
	remote := 0
	if em.AssigneeRemoteAddress != "" {
		remote = 9
		if as > 0 {
			remote = r.addrID(as-1, em.AssigneeRemoteAddress)
		}
	}
	subs := []any{}
	for _, g := range m.GetGasEstimates() {
		subs = append(subs, map[string]any{"v": r.valIdxBytes(g.ValAddress), "g": small(g.Value)})
	}
	evs := []int{}
	for _, e := range m.GetEvidence() {
		evs = append(evs, r.valIdxBytes(e.ValAddress))
	}
	sort.Ints(evs)
	return map[string]any{"id": small(m.GetId()), "kind": kind, "sender": sender, "assignee": as, "remote": remote,
		"needsEst": m.GetRequireGasEstimation(), "est": small(m.GetGasEstimate()),
		"pad": m.GetPublicAccessData() != nil, "err": m.GetErrorData() != nil, "fees": fees, "subs": subs,
		"mev": mev, "retries": retries, "ev": evs}
}

func (r *run) emit(act string, a any, res string, errS string, extra map[string]any) {
	r.i++
	ev := map[string]any{"h": r.h, "i": r.i, "act": act, "args": a, "res": res, "err": errS, "obs": r.observe(),
		"rid": 0, "offered": []any{}}
	for k, v := range extra {
		ev[k] = v
	}
	r.em.Emit(ev)
}

func (r *run) realID(k int) uint64 {
	if k >= 1 && k <= len(r.created) {
		return r.created[k-1]
	}
	return uint64(9000 + k)
}

func (r *run) queueIDs() map[uint64]bool {
	msgs, err := r.w.e.Consensus.GetMessagesFromQueue(r.ctx, queueName, 0)
	must(err)
	s := map[uint64]bool{}
	for _, m := range msgs {
		s[m.GetId()] = true
	}
	// logic calls of the home chain queue count as created messages too (model ids are shared)
	msgsH, err := r.w.e.Consensus.GetMessagesFromQueue(r.ctx, queueNameHome, 0)
	must(err)
	for _, m := range msgsH {
		if cm, err := m.ConsensusMsg(r.w.e.Cdc); err == nil {
			if em, ok := cm.(*evmtypes.Message); ok && em.GetSubmitLogicCall() != nil {
				s[m.GetId()] = true
			}
		}
	}
	return s
}

func errStr(err error) string {
	if err == nil {
		return ""
	}
	s := err.Error()
	if len(s) > 200 {
		s = s[:200]
	}
	return s
}

func meta(a sdk.AccAddress) valsettypes.MsgMetadata {
	return valsettypes.MsgMetadata{Creator: a.String(), Signers: []string{a.String()}}
}

// ---- atomic steps ---------------------------------------------------------------------------

func (r *run) setup(a args, raw json.RawMessage) {
	for v, rw := range a.Rows {
		must(r.w.e.Valset.SetExternalChainInfoState(r.ctx, r.w.vals[v].Val, r.infos(v, rw.Home, rw.Acct, rw.MevH, rw.MevT)))
		r.setFee(v, rw.Fee, rw.FeeH)
	}
	_, err := r.w.e.Valset.TriggerSnapshotBuild(r.ctx)
	must(err)
	for v, rw := range a.Rows {
		if !rw.Perf {
			r.dropMetrics(v)
		}
	}
	r.emit("Setup", raw, "setup", "", nil)
}

func (r *run) rereg(a args, raw json.RawMessage) {
	v := a.V - 1
	h, _, _, _ := r.curOf(v)
	err := r.w.e.Valset.SetExternalChainInfoState(r.ctx, r.w.vals[v].Val, r.infos(v, h, a.Acct, a.MevH, a.MevT))
	must(err)
	r.emit("Rereg", raw, "rereg", "", nil)
}

func (r *run) resnap(raw json.RawMessage) {
	_, err := r.w.e.Valset.TriggerSnapshotBuild(r.ctx)
	must(err)
	r.emit("Resnap", raw, "resnap", "", nil)
}

func (r *run) assign(a args, raw json.RawMessage) {
	before := r.queueIDs()
	r.ctx = r.ctx.WithBlockTime(r.base.Add(time.Duration(a.T) * time.Second))
	call := &evmtypes.SubmitLogicCall{
		HexContractAddress: "0x00000000000000000000000000000000000000cc", Abi: []byte("[]"), Payload: []byte{1, 2, 3},
		Deadline: r.base.Add(time.Hour).Unix(), SenderAddress: []byte(fmt.Sprintf("sender-%d", a.S)),
		ExecutionRequirements: evmtypes.SubmitLogicCall_ExecutionRequirements{EnforceMEVRelay: a.Mev},
	}
	chain, compass := target, "compass-eth-b-1"
	if a.C == "h" {
		chain, compass = home, "compass-eth-a-1"
	}
	err, _ := env.RunMsg(r.ctx, func(ctx sdk.Context) error {
		_, err := r.w.e.Evm.AddSmartContractExecutionToConsensus(ctx, chain, compass, call)
		return err
	})
	r.noteCreated(before)
	res := "assigned"
	if err != nil {
		res = "noassign"
	}
	r.emit("Assign", raw, res, errStr(err), nil)
}

func (r *run) noteCreated(before map[uint64]bool) {
	var fresh []uint64
	for id := range r.queueIDs() {
		if !before[id] {
			fresh = append(fresh, id)
		}
	}
	sort.Slice(fresh, func(i, j int) bool { return fresh[i] < fresh[j] })
	r.created = append(r.created, fresh...)
}

func chainOf(c string) (chain, compass, queue string) {
	if c == "h" {
		return home, "compass-eth-a-1", queueNameHome
	}
	return target, "compass-eth-b-1", queueName
}

// queueOf names the queue that holds message rid (the target chain's queue if none does).
func (r *run) queueOf(rid uint64) string {
	msgs, err := r.w.e.Consensus.GetMessagesFromQueue(r.ctx, queueNameHome, 0)
	must(err)
	for _, m := range msgs {
		if m.GetId() == rid {
			return queueNameHome
		}
	}
	return queueName
}

func (r *run) put(c, kind string, s, a int, ne bool, raw any) {
	before := r.queueIDs()
	as := r.w.vals[a-1]
	chain, compass, qn := chainOf(c)
	msg := &evmtypes.Message{ChainReferenceID: chain, TurnstoneID: compass, Assignee: as.Val.String(),
		AssigneeRemoteAddress: as.EthAddr.Hex(), AssignedAtBlockHeight: math.NewInt(r.ctx.BlockHeight())}
	switch kind {
	case "slc":
		sender := []byte(nil)
		if s != 0 {
			sender = []byte(fmt.Sprintf("sender-%d", s))
		}
		msg.Action = &evmtypes.Message_SubmitLogicCall{SubmitLogicCall: &evmtypes.SubmitLogicCall{
			HexContractAddress: "0x00000000000000000000000000000000000000cc", Abi: []byte("[]"), Payload: []byte{1}, Deadline: r.base.Add(time.Hour).Unix(), SenderAddress: sender}}
	case "valset":
		msg.Action = &evmtypes.Message_UpdateValset{UpdateValset: &evmtypes.UpdateValset{Valset: &evmtypes.Valset{
			ValsetID: uint64(100 + len(r.created)), Validators: []string{as.EthAddr.Hex()}, Powers: []uint64{1 << 32}}}}
	default:
		msg.Action = &evmtypes.Message_UploadSmartContract{UploadSmartContract: &evmtypes.UploadSmartContract{Id: uint64(50 + len(r.created)), Bytecode: []byte{1}, Abi: "[]"}}
	}
	err, _ := env.RunMsg(r.ctx, func(ctx sdk.Context) error {
		_, err := r.w.e.Consensus.PutMessageInQueue(ctx, qn, msg, &consensus.PutOptions{RequireGasEstimation: ne, RequireSignatures: true})
		return err
	})
	must(err)
	r.noteCreated(before)
	r.emit("Put", raw, "put", "", nil)
}

func (r *run) estimate(v, id, g int) {
	rid := r.realID(id)
	val := r.w.vals[v-1]
	qn := r.queueOf(rid)
	err, _ := env.RunMsg(r.ctx, func(ctx sdk.Context) error {
		_, err := r.w.srv.AddMessageEstimates(ctx, &consensustypes.MsgAddMessageGasEstimates{Metadata: meta(val.Acc),
			Estimates: []*consensustypes.MsgAddMessageGasEstimates_GasEstimate{{MsgId: rid, QueueTypeName: qn, Value: uint64(g), EstimatedByAddress: val.EthAddr.Hex()}}})
		return err
	})
	res := "ok"
	if err != nil {
		res = "fail"
	}
	r.emit("Estimate", map[string]any{"v": v, "id": id, "g": g}, res, errStr(err), map[string]any{"rid": small(rid)})
}

// attestErr: validator v attests an execution-error proof for message id (consensus message server AddEvidence).
func (r *run) attestErr(v, id int) {
	rid := r.realID(id)
	val := r.w.vals[v-1]
	qn := r.queueOf(rid)
	proof, err := codectypes.NewAnyWithValue(&evmtypes.SmartContractExecutionErrorProof{ErrorMessage: "execution reverted"})
	must(err)
	err, _ = env.RunMsg(r.ctx, func(ctx sdk.Context) error {
		_, err := r.w.srv.AddEvidence(ctx, &consensustypes.MsgAddEvidence{Proof: proof, MessageID: rid, QueueTypeName: qn, Metadata: meta(val.Acc)})
		return err
	})
	res := "ok"
	if err != nil {
		res = "fail"
	}
	r.emit("AttestErr", map[string]any{"v": v, "id": id}, res, errStr(err), map[string]any{"rid": small(rid)})
}

// endBlockAtt runs the attestation part of the consensus end blocker at block time base+t.
func (r *run) endBlockAtt(t int, raw any) {
	before := r.queueIDs()
	r.ctx = r.ctx.WithBlockTime(r.base.Add(time.Duration(t) * time.Second))
	res, errS := "eba", ""
	func() {
		defer func() {
			if rec := recover(); rec != nil {
				res = "panic"
				errS = fmt.Sprintf("panic: %v @ %s", rec, palomaFrames())
			}
		}()
		if err := r.w.e.Consensus.CheckAndProcessAttestedMessages(r.ctx); err != nil {
			errS = errStr(err)
		}
	}()
	r.noteCreated(before)
	r.emit("EndBlockAtt", raw, res, errS, nil)
}

func (r *run) setFeeStep(a args, raw json.RawMessage) {
	fee, feeH := r.feesOf(a.V - 1)
	if a.C == "h" {
		feeH = a.F
	} else {
		fee = a.F
	}
	r.setFee(a.V-1, fee, feeH)
	r.emit("SetFee", raw, "setfee", "", nil)
}

func (r *run) endBlock(raw any) {
	res := "eb"
	errS := ""
	func() {
		defer func() {
			if rec := recover(); rec != nil {
				res = "panic"
				errS = fmt.Sprintf("panic: %v @ %s", rec, palomaFrames())
			}
		}()
		if err := r.w.e.Consensus.CheckAndProcessEstimatedMessages(r.ctx); err != nil {
			errS = errStr(err)
		}
	}()
	r.emit("EndBlock", raw, res, errS, nil)
}

// palomaFrames names the innermost frames of the current panic that belong to the code under test.
func palomaFrames() string {
	var out []string
	lines := strings.Split(string(debug.Stack()), "\n")
	for i, l := range lines {
		if strings.HasPrefix(l, "github.com/palomachain/paloma/") && i+1 < len(lines) {
			loc := strings.TrimSpace(lines[i+1])
			if k := strings.Index(loc, " +0x"); k > 0 {
				loc = loc[:k]
			}
			if k := strings.Index(loc, "/x/"); k > 0 {
				loc = loc[k+1:]
			}
			out = append(out, loc)
			if len(out) == 3 {
				break
			}
		}
	}
	return strings.Join(out, " < ")
}

// reporter: the assignee of the message if there is one, validator 1 otherwise
func (r *run) reporter(rid uint64) env.Val {
	msgs, _ := r.w.e.Consensus.GetMessagesFromQueue(r.ctx, queueName, 0)
	for _, m := range msgs {
		if m.GetId() == rid {
			if cm, err := m.ConsensusMsg(r.w.e.Cdc); err == nil {
				if i := r.valIdx(cm.(*evmtypes.Message).Assignee); i > 0 {
					return r.w.vals[i-1]
				}
			}
		}
	}
	return r.w.vals[0]
}

func (r *run) report(act string, id int) {
	rid := r.realID(id)
	val := r.reporter(rid)
	err, _ := env.RunMsg(r.ctx, func(ctx sdk.Context) error {
		if act == "Deliver" {
			_, err := r.w.srv.SetPublicAccessData(ctx, &consensustypes.MsgSetPublicAccessData{MessageID: rid, QueueTypeName: queueName, Data: []byte{0xab}, Metadata: meta(val.Acc)})
			return err
		}
		_, err := r.w.srv.SetErrorData(ctx, &consensustypes.MsgSetErrorData{MessageID: rid, QueueTypeName: queueName, Data: []byte{0xee}, Metadata: meta(val.Acc)})
		return err
	})
	res := "ok"
	if err != nil {
		res = "fail"
	}
	r.emit(act, map[string]any{"id": id}, res, errStr(err), map[string]any{"rid": small(rid)})
}

func (r *run) query(raw any) {
	offered := []any{}
	errS := ""
	for _, v := range r.w.vals {
		msgs, err := r.w.e.Consensus.GetMessagesForRelaying(r.ctx, queueName, v.Val)
		if err != nil {
			errS = errStr(err)
		}
		ids := []int{}
		for _, m := range msgs {
			ids = append(ids, small(m.GetId()))
		}
		offered = append(offered, ids)
	}
	res := "query"
	if errS != "" {
		res = "fail"
	}
	r.emit("Query", raw, res, errS, map[string]any{"offered": offered})
}

func (r *run) step(s drv.Step) {
	var a args
	if len(s.Args) > 0 {
		if err := json.Unmarshal(s.Args, &a); err != nil {
			panic(err)
		}
	}
	switch s.Act {
	case "Init": // recorded by the driver itself (present when a recorded trace is replayed)
	case "Setup":
		r.setup(a, s.Args)
	case "Rereg":
		r.rereg(a, s.Args)
	case "Resnap":
		r.resnap(s.Args)
	case "Assign":
		r.assign(a, s.Args)
	case "Put":
		r.put(a.C, a.Kind, a.S, a.A, a.Ne, s.Args)
	case "SetFee":
		r.setFeeStep(a, s.Args)
	case "AttestErr":
		r.attestErr(a.V, a.ID)
	case "AttestErrN":
		for v := 1; v <= a.N; v++ {
			r.attestErr(v, a.ID)
		}
	case "EndBlockAtt":
		r.endBlockAtt(a.T, s.Args)
	case "Estimate":
		r.estimate(a.V, a.ID, a.G)
	case "EstimateN":
		for v := 1; v <= a.N; v++ {
			r.estimate(v, a.ID, a.G)
		}
	case "EndBlock":
		r.endBlock(s.Args)
	case "Deliver", "Fail":
		r.report(s.Act, a.ID)
	case "Query":
		r.query(s.Args)
	case "PutX":
		c := a.C
		if c == "" {
			c = "t"
		}
		r.put(c, a.Kind, a.S, a.A, a.Stage != "noneed", map[string]any{"c": c, "kind": a.Kind, "s": a.S, "a": a.A, "ne": a.Stage != "noneed"})
		id := len(r.created)
		n := 0
		switch a.Stage {
		case "sub":
			n = a.N - 1
		case "ready", "elected":
			n = a.N
		}
		for v := 1; v <= n; v++ {
			r.estimate(v, id, a.G)
		}
		if a.Stage == "elected" {
			r.endBlock(map[string]any{"w": 0})
		}
		switch a.Proc {
		case "pad":
			r.report("Deliver", id)
		case "err":
			r.report("Fail", id)
		}
	default:
		panic("unknown action " + s.Act)
	}
}

func TestDriveRelayGate(t *testing.T) {
	hs, err := drv.LoadHistories()
	if err != nil {
		t.Fatal(err)
	}
	em, err := drv.NewEmitter()
	if err != nil {
		t.Fatal(err)
	}
	defer em.Close()
	w := newWorld()
	for _, h := range hs {
		cctx, _ := w.e.Ctx.CacheContext() // branch of the prepared world, never written back
		r := &run{w: w, ctx: cctx, h: h.H, em: em, base: w.e.Ctx.BlockTime()}
		ev := map[string]any{"h": h.H, "i": 0, "act": "Init", "obs": r.observe(), "nvals": nVals, "scale": scale,
			"basemod": int(r.base.Unix() % 60)}
		em.Emit(ev)
		for _, s := range h.Steps {
			r.step(s)
		}
	}
}

// ---------------------------------------------------------------------------------------------
// Fee samples at real magnitude: (multiplicator, community rate, security rate, gas) -> fees attached by the
// real code path.  Input: VERIF_FEE_IN (ndjson of {"m","c","s","g"} decimal strings), output VERIF_FEE_OUT.
type feeIn struct {
	M string `json:"m"`
	C string `json:"c"`
	S string `json:"s"`
	G string `json:"g"`
}

func dec18(d math.LegacyDec) string { return d.BigInt().String() }

func TestFeeSamples(t *testing.T) {
	in, out := os.Getenv("VERIF_FEE_IN"), os.Getenv("VERIF_FEE_OUT")
	if in == "" || out == "" {
		t.Skip("VERIF_FEE_IN / VERIF_FEE_OUT not set")
	}
	raw, err := os.ReadFile(in)
	if err != nil {
		t.Fatal(err)
	}
	f, err := os.Create(out)
	if err != nil {
		t.Fatal(err)
	}
	defer f.Close()
	w := newWorld()
	enc := json.NewEncoder(f)
	for _, line := range strings.Split(strings.TrimSpace(string(raw)), "\n") {
		var s feeIn
		if err := json.Unmarshal([]byte(line), &s); err != nil {
			t.Fatal(err)
		}
		cctx, _ := w.e.Ctx.CacheContext()
		r := &run{w: w, ctx: cctx, base: w.e.Ctx.BlockTime()}
		m := math.LegacyMustNewDecFromStr(s.M)
		gas, ok := new(big.Int).SetString(s.G, 10)
		if !ok || !gas.IsUint64() {
			t.Fatalf("bad gas %q", s.G)
		}
		rec := map[string]any{"in": s, "m18": dec18(m), "c18": dec18(math.LegacyMustNewDecFromStr(s.C)), "s18": dec18(math.LegacyMustNewDecFromStr(s.S)),
			"g": gas.String(), "outcome": "", "r": "0", "cf": "0", "sf": "0", "est": "0", "err": ""}
		for _, v := range w.vals {
			must(w.e.Treasury.SetRelayerFee(r.ctx, v.Val, &treasurytypes.RelayerFeeSetting{ValAddress: v.Val.String(),
				Fees: []treasurytypes.RelayerFeeSetting_FeeSetting{{Multiplicator: m, ChainReferenceId: target}, {Multiplicator: math.LegacyMustNewDecFromStr("1.10"), ChainReferenceId: home}}}))
		}
		must(w.e.Treasury.SetCommunityFundFee(r.ctx, s.C))
		must(w.e.Treasury.SetSecurityFee(r.ctx, s.S))
		call := &evmtypes.SubmitLogicCall{HexContractAddress: "0x00000000000000000000000000000000000000cc", Abi: []byte("[]"), Payload: []byte{1},
			Deadline: r.base.Add(time.Hour).Unix(), SenderAddress: []byte("sender-1")}
		id, err := w.e.Evm.AddSmartContractExecutionToConsensus(r.ctx, target, "compass-eth-b-1", call)
		if err != nil {
			rec["outcome"], rec["err"] = "noassign", errStr(err)
			enc.Encode(rec)
			continue
		}
		// an odd number of submitters: the median is a submitted value (palomath.Median averages with overflow on even counts)
		for _, v := range w.vals[:5] {
			_, err := w.srv.AddMessageEstimates(r.ctx, &consensustypes.MsgAddMessageGasEstimates{Metadata: meta(v.Acc),
				Estimates: []*consensustypes.MsgAddMessageGasEstimates_GasEstimate{{MsgId: id, QueueTypeName: queueName, Value: gas.Uint64(), EstimatedByAddress: v.EthAddr.Hex()}}})
			must(err)
		}
		func() {
			defer func() {
				if p := recover(); p != nil {
					rec["outcome"], rec["err"] = "panic", fmt.Sprintf("%v @ %s", p, palomaFrames())
				}
			}()
			if err := w.e.Consensus.CheckAndProcessEstimatedMessages(r.ctx); err != nil {
				rec["err"] = errStr(err)
			}
		}()
		if rec["outcome"] == "" {
			msgs, _ := w.e.Consensus.GetMessagesFromQueue(r.ctx, queueName, 0)
			for _, qm := range msgs {
				if qm.GetId() != id {
					continue
				}
				cm, _ := qm.ConsensusMsg(w.e.Cdc)
				slc := cm.(*evmtypes.Message).GetSubmitLogicCall()
				rec["est"] = fmt.Sprint(qm.GetGasEstimate())
				if qm.GetGasEstimate() == 0 || slc.Fees == nil {
					rec["outcome"] = "notelected"
				} else {
					rec["outcome"] = "fees"
					rec["r"], rec["cf"], rec["sf"] = fmt.Sprint(slc.Fees.RelayerFee), fmt.Sprint(slc.Fees.CommunityFee), fmt.Sprint(slc.Fees.SecurityFee)
				}
			}
		}
		enc.Encode(rec)
	}
}
