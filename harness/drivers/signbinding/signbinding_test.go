//go:build verif

// Driver for specs/SignBinding.tla (E3: plain objects, no chain).
//
// Every history is one obligation  Check(kind, fields, mode)  emitted by TLC from the field tables:
//
//	subst : a second concrete value is substituted in every field of the set, all else equal
//	shift : a crafted pair that moves a boundary between neighbouring free-text values
//	cross : two evidence proofs of different types crafted to have equal hash input
//
// The driver builds both items, computes the REAL digests
//
//	C05  QueuedSignedMessage.GetBytesToSign (after the queue's store round trip) / OutgoingTxBatch.GetCheckpoint
//	C11  the raw store keys of the attestations the REAL skyway Keeper.Attest creates when two validators submit the two claims (E1):
//	     prefix(chain) ++ GetAttestationKey(nonce, ClaimHash); one key = votes pooled
//	C04  BytesToHash, and whether the real libcons.VerifyEvidence pools the two proofs
//
// and records whether they differ, plus the field list of the item obtained by reflection.
// It holds no expectation: the trace specification decides.
package signbinding

import (
	"bytes"
	"encoding/hex"
	"encoding/json"
	"fmt"
	"sort"
	"strings"
	"testing"

	"github.com/palomachain/paloma/v2/testutil/common"
	"verifharness/drv"
)

type checkArgs struct {
	Kind   string   `json:"kind"`
	Fields []string `json:"fields"`
	Mode   string   `json:"mode"`
}

type surveyArgs struct {
	Family string `json:"family"`
}

func short(b []byte) string {
	if len(b) > 16 {
		return hex.EncodeToString(b[:6]) + ".." + hex.EncodeToString(b[len(b)-8:])
	}
	return hex.EncodeToString(b)
}

func show(v any) string {
	var s string
	switch x := v.(type) {
	case []byte:
		s = "0x" + hex.EncodeToString(x)
	case string:
		s = fmt.Sprintf("%q", x)
	case []any:
		ps := []string{}
		for _, e := range x {
			ps = append(ps, show(e))
		}
		s = "[" + strings.Join(ps, " ") + "]"
	default:
		s = fmt.Sprintf("%v", x)
	}
	if len(s) > 90 {
		s = s[:90] + "..."
	}
	return s
}

type outcome struct {
	differs bool
	baseHex string
	pertHex string
	detail  string
	seen    []string
	res     string
	atts    []any
	subs    []any
}

func seenOf(k *kindDef) []string {
	b := k.base()
	fs := fieldList(b.obj, k.expand, b.anys)
	for a := range b.args {
		fs = append(fs, a)
	}
	sort.Strings(fs)
	return fs
}

func compare(k *kindDef, a, b *item) (r *pairResult, err error) {
	err2, _ := drv.Recover(func() error {
		var e error
		if k.pair != nil {
			r, e = k.pair(a, b)
			return e
		}
		r = &pairResult{}
		if r.da, e = k.digest(a); e != nil {
			return fmt.Errorf("digest of base item: %w", e)
		}
		if r.db, e = k.digest(b); e != nil {
			return fmt.Errorf("digest of perturbed item: %w", e)
		}
		r.differs = !bytes.Equal(r.da, r.db)
		return nil
	})
	return r, err2
}

// compareAll evaluates every candidate pair; the obligation's digests differ iff they differ for every candidate.
// The recorded detail / digests are those of the first candidate that was NOT separated (or of the first candidate).
func compareAll(k *kindDef, cs []cand, o *outcome) {
	o.differs = true
	for i, c := range cs {
		r, err := compare(k, c.a, c.b)
		if err != nil {
			o.res = "err:" + err.Error()
			o.differs = false
			return
		}
		if i == 0 || (!r.differs && o.differs) {
			o.baseHex, o.pertHex, o.detail = short(r.da), short(r.db), c.note
		}
		if !r.differs {
			o.differs = false
		}
		o.atts = append(o.atts, r.atts...)
		o.subs = append(o.subs, r.subs...)
	}
	if len(cs) == 0 {
		o.res = "err:no candidate pair"
		o.differs = false
	}
}

func runCheck(kinds map[string]*kindDef, a checkArgs) outcome {
	o := outcome{seen: []string{}, res: "ok", atts: []any{}, subs: []any{}}
	fields := append([]string{}, a.Fields...)
	sort.Strings(fields)
	if a.Mode == "cross" {
		if len(fields) != 2 {
			o.res = "err:cross needs two types"
			return o
		}
		k, ok := kinds[fields[0]]
		if !ok {
			o.res = "err:unknown kind " + fields[0]
			return o
		}
		cs, err := crossPairs(fields[0], fields[1])
		if err != nil {
			o.res = "err:" + err.Error()
			return o
		}
		compareAll(k, cs, &o)
		return o
	}
	k, ok := kinds[a.Kind]
	if !ok {
		o.res = "err:unknown kind " + a.Kind
		return o
	}
	o.seen = seenOf(k)
	switch a.Mode {
	case "subst":
		x, y := k.base(), k.base()
		var ds []string
		for _, f := range fields {
			v, ok := k.alt[f]
			if !ok {
				o.res = "err:no second value for field " + f
				return o
			}
			if strings.HasPrefix(f, "@") {
				y.args[f] = v
			} else if err := setPath(y.obj, f, v, y.anys); err != nil {
				o.res = "err:set " + f + ": " + err.Error()
				return o
			}
			ds = append(ds, f+":="+show(v))
		}
		compareAll(k, []cand{{x, y, strings.Join(ds, "; ")}}, &o)
	case "subst-redeploy":
		if k.redeploy == nil {
			o.res = "err:no re-deployment history for kind " + k.name
			return o
		}
		x, y := k.base(), k.base()
		for _, it := range []*item{x, y} {
			for f, v := range k.redeploy.a {
				if err := setPath(it.obj, f, v, it.anys); err != nil {
					o.res = "err:set " + f + ": " + err.Error()
					return o
				}
			}
		}
		var ds []string
		for _, f := range fields {
			v, ok := k.redeploy.alt[f]
			if !ok {
				v, ok = k.alt[f]
			}
			if !ok {
				o.res = "err:no second value for field " + f
				return o
			}
			if err := setPath(y.obj, f, v, y.anys); err != nil {
				o.res = "err:set " + f + ": " + err.Error()
				return o
			}
			ds = append(ds, f+":="+show(v))
		}
		x.after = redeployPrefix(k.name, k.redeploy.c0)
		y.after = x.after
		compareAll(k, []cand{{x, y, "after [c0 = base claim observed at nonce 1 under " + tsA + "; bridge re-deployed as " + tsB + "]: a = base with nonce 1, height 19000250, compass " + tsB + "; b = a with " + strings.Join(ds, "; ")}}, &o)
	case "shift":
		mk, ok := k.shift[strings.Join(fields, ",")]
		if !ok {
			o.res = "err:no boundary-moving pair for " + strings.Join(fields, ",")
			return o
		}
		compareAll(k, mk(), &o)
	default:
		// value classes of one field
		mk, ok := k.class[a.Mode][strings.Join(fields, ",")]
		if !ok {
			o.res = "err:no pairs for mode " + a.Mode + " of " + strings.Join(fields, ",")
			return o
		}
		compareAll(k, mk(), &o)
	}
	return o
}

func TestDriveSignBinding(t *testing.T) {
	common.SetupPalomaPrefixes()
	hs, err := drv.LoadHistories()
	if err != nil {
		t.Fatal(err)
	}
	em, err := drv.NewEmitter()
	if err != nil {
		t.Fatal(err)
	}
	defer em.Close()
	kinds := allKinds()
	for _, h := range hs {
		for i, st := range h.Steps {
			switch st.Act {
			case "Check":
				var a checkArgs
				if err := json.Unmarshal(st.Args, &a); err != nil {
					t.Fatal(err)
				}
				sort.Strings(a.Fields)
				o := runCheck(kinds, a)
				em.Emit(map[string]any{"h": h.H, "i": i + 1, "act": "Check", "args": a, "res": o.res, "differs": o.differs,
					"base_hex": o.baseHex, "pert_hex": o.pertHex, "fields_seen": o.seen, "detail": o.detail, "atts": o.atts, "subs": o.subs})
			case "Survey":
				var a surveyArgs
				if err := json.Unmarshal(st.Args, &a); err != nil {
					t.Fatal(err)
				}
				var ks []string
				e, _ := drv.Recover(func() error { ks = kindsSeen(a.Family); return nil })
				res := "ok"
				if e != nil {
					res = "err:" + e.Error()
				}
				if ks == nil {
					ks = []string{}
				}
				em.Emit(map[string]any{"h": h.H, "i": i + 1, "act": "Survey", "args": a, "res": res, "kinds_seen": ks})
			default:
				t.Fatalf("unknown action %q", st.Act)
			}
		}
	}
}

// TestPrintFields prints the reflected field lists (development aid for keeping specs/SignBinding.tla in sync).
func TestPrintFields(t *testing.T) {
	common.SetupPalomaPrefixes()
	ks := allKinds()
	for _, n := range sortedKeys(ks) {
		fmt.Printf("%s %s: %s\n", ks[n].family, n, strings.Join(seenOf(ks[n]), " "))
	}
	for _, f := range []string{"C05", "C11", "C04"} {
		fmt.Printf("kinds %s: %v\n", f, kindsSeen(f))
	}
}
