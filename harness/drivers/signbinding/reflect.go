//go:build verif

package signbinding

// Reflection helpers: the field list of an item (proto field names taken from the generated
// struct tags, nested messages flattened with dots, selected repeated messages with "[]"),
// and a generic setter that substitutes a value at such a path.  Nothing here knows which
// fields a digest is supposed to cover.

import (
	"fmt"
	"reflect"
	"sort"
	"strings"

	"cosmossdk.io/math"
	codectypes "github.com/cosmos/cosmos-sdk/codec/types"
	gogoproto "github.com/cosmos/gogoproto/proto"
	"google.golang.org/protobuf/reflect/protoreflect"
)

var anyType = reflect.TypeOf(codectypes.Any{})

func tagName(f reflect.StructField) (string, bool) {
	t, ok := f.Tag.Lookup("protobuf")
	if !ok {
		return "", false
	}
	for _, p := range strings.Split(t, ",") {
		if strings.HasPrefix(p, "name=") {
			return strings.TrimPrefix(p, "name="), true
		}
	}
	return "", false
}

func hasProtoFields(t reflect.Type) bool {
	if t.Kind() != reflect.Struct {
		return false
	}
	for i := 0; i < t.NumField(); i++ {
		if _, ok := tagName(t.Field(i)); ok {
			return true
		}
		if _, ok := t.Field(i).Tag.Lookup("protobuf_oneof"); ok {
			return true
		}
	}
	return false
}

func elemStruct(t reflect.Type) (reflect.Type, bool) {
	for t.Kind() == reflect.Ptr {
		t = t.Elem()
	}
	if t.Kind() == reflect.Struct && t != anyType && hasProtoFields(t) {
		return t, true
	}
	return nil, false
}

// fieldList returns the flattened proto field names of v (a pointer to a generated struct).
// expand: names (full paths) of repeated message fields whose element fields are listed as "path[].x".
// anys: path -> value packed in a google.protobuf.Any field at that path (flattened in place).
func fieldList(v any, expand map[string]bool, anys map[string]any) []string {
	var out []string
	walk(reflect.ValueOf(v), "", expand, anys, &out)
	sort.Strings(out)
	return out
}

func walk(v reflect.Value, prefix string, expand map[string]bool, anys map[string]any, out *[]string) {
	for v.Kind() == reflect.Ptr {
		if v.IsNil() {
			v = reflect.New(v.Type().Elem())
		}
		v = v.Elem()
	}
	t := v.Type()
	for i := 0; i < t.NumField(); i++ {
		f := t.Field(i)
		fv := v.Field(i)
		if _, ok := f.Tag.Lookup("protobuf_oneof"); ok {
			// descend into the concrete wrapper of the item at hand
			if fv.IsNil() {
				continue
			}
			w := fv.Elem()
			for w.Kind() == reflect.Ptr {
				w = w.Elem()
			}
			walk(w.Addr(), prefix, expand, anys, out)
			continue
		}
		name, ok := tagName(f)
		if !ok {
			continue
		}
		path := prefix + name
		ft := f.Type
		if inner, ok := anys[path]; ok {
			walk(reflect.ValueOf(inner), path+".", expand, anys, out)
			continue
		}
		if ft.Kind() == reflect.Slice && ft.Elem().Kind() != reflect.Uint8 {
			if et, ok := elemStruct(ft.Elem()); ok && expand[path] {
				walk(reflect.New(et), path+"[].", expand, anys, out)
				continue
			}
			*out = append(*out, path)
			continue
		}
		if _, ok := elemStruct(ft); ok {
			walk(fv2ptr(fv), path+".", expand, anys, out)
			continue
		}
		*out = append(*out, path)
	}
}

func fv2ptr(fv reflect.Value) reflect.Value {
	if fv.Kind() == reflect.Ptr {
		if fv.IsNil() {
			return reflect.New(fv.Type().Elem())
		}
		return fv
	}
	if fv.CanAddr() {
		return fv.Addr()
	}
	p := reflect.New(fv.Type())
	p.Elem().Set(fv)
	return p
}

// setPath substitutes val at the proto path inside v (pointer to generated struct).
// For "x[].y" paths val must be a []any with one value per element.
func setPath(v any, path string, val any, anys map[string]any) error {
	return setIn(reflect.ValueOf(v), "", strings.Split(path, "."), val, anys)
}

func setIn(v reflect.Value, prefix string, parts []string, val any, anys map[string]any) error {
	for v.Kind() == reflect.Ptr {
		if v.IsNil() {
			v.Set(reflect.New(v.Type().Elem()))
		}
		v = v.Elem()
	}
	if len(parts) == 0 {
		return fmt.Errorf("empty path")
	}
	want := parts[0]
	list := strings.HasSuffix(want, "[]")
	want = strings.TrimSuffix(want, "[]")
	t := v.Type()
	for i := 0; i < t.NumField(); i++ {
		f := t.Field(i)
		fv := v.Field(i)
		if _, ok := f.Tag.Lookup("protobuf_oneof"); ok {
			if fv.IsNil() {
				continue
			}
			w := fv.Elem()
			for w.Kind() == reflect.Ptr {
				w = w.Elem()
			}
			if err := setIn(w.Addr(), prefix, parts, val, anys); err == nil {
				return nil
			} else if !strings.HasPrefix(err.Error(), "no field") {
				return err
			}
			continue
		}
		name, ok := tagName(f)
		if !ok || name != want {
			continue
		}
		path := prefix + name
		if len(parts) == 1 {
			return assign(fv, val)
		}
		if inner, ok := anys[path]; ok {
			return setIn(reflect.ValueOf(inner), path+".", parts[1:], val, anys)
		}
		if list {
			vals, ok := val.([]any)
			if !ok {
				return fmt.Errorf("list path %s needs []any", path)
			}
			if fv.Len() != len(vals) {
				return fmt.Errorf("list path %s: %d elements, %d values", path, fv.Len(), len(vals))
			}
			for j := 0; j < fv.Len(); j++ {
				el := fv.Index(j)
				if el.Kind() != reflect.Ptr {
					el = el.Addr()
				}
				if err := setIn(el, path+"[].", parts[1:], vals[j], anys); err != nil {
					return err
				}
			}
			return nil
		}
		if fv.Kind() == reflect.Ptr {
			return setIn(fv, path+".", parts[1:], val, anys)
		}
		return setIn(fv.Addr(), path+".", parts[1:], val, anys)
	}
	return fmt.Errorf("no field %s%s", prefix, want)
}

func assign(fv reflect.Value, val any) error {
	rv := reflect.ValueOf(val)
	if !rv.IsValid() {
		fv.Set(reflect.Zero(fv.Type()))
		return nil
	}
	if rv.Type().AssignableTo(fv.Type()) {
		fv.Set(rv)
		return nil
	}
	if rv.Type().ConvertibleTo(fv.Type()) && rv.Kind() != reflect.String && fv.Kind() != reflect.String {
		fv.Set(rv.Convert(fv.Type()))
		return nil
	}
	if rv.Kind() == reflect.String && fv.Kind() == reflect.String {
		fv.SetString(rv.String())
		return nil
	}
	// *math.Int from math.Int
	if mi, ok := val.(math.Int); ok && fv.Type() == reflect.TypeOf(&mi) {
		fv.Set(reflect.ValueOf(&mi))
		return nil
	}
	return fmt.Errorf("cannot assign %T to %s", val, fv.Type())
}

// leafValues flattens a message into path -> printed value (nested singular messages with dots).
func leafValues(v reflect.Value, prefix string, out map[string]string) {
	for v.Kind() == reflect.Ptr {
		if v.IsNil() {
			return
		}
		v = v.Elem()
	}
	t := v.Type()
	for i := 0; i < t.NumField(); i++ {
		name, ok := tagName(t.Field(i))
		if !ok {
			continue
		}
		fv := v.Field(i)
		if _, ok := elemStruct(t.Field(i).Type); ok && fv.Kind() != reflect.Slice {
			leafValues(fv2ptr(fv), prefix+name+".", out)
			continue
		}
		if s, ok := fv.Interface().(fmt.Stringer); ok && fv.Kind() == reflect.Struct {
			out[prefix+name] = s.String()
			continue
		}
		out[prefix+name] = fmt.Sprintf("%#v", fv.Interface())
	}
}

// diffFields lists the fields in which two messages of the same type differ.
func diffFields(a, b any) []string {
	ma, mb := map[string]string{}, map[string]string{}
	leafValues(reflect.ValueOf(a), "", ma)
	leafValues(reflect.ValueOf(b), "", mb)
	d := map[string]bool{}
	for k, v := range ma {
		if mb[k] != v {
			d[k] = true
		}
	}
	for k, v := range mb {
		if ma[k] != v {
			d[k] = true
		}
	}
	if reflect.TypeOf(a) != reflect.TypeOf(b) {
		d["@type"] = true
	}
	return sortedKeys(d)
}

// implementors returns the Go types of all registered proto messages (gogoproto registry, i.e.
// every generated message linked into the binary) whose pointer type implements iface.
func implementors(iface reflect.Type) map[string]reflect.Type {
	res := map[string]reflect.Type{}
	gogoproto.HybridResolver.RangeFiles(func(fd protoreflect.FileDescriptor) bool {
		var rec func(ms protoreflect.MessageDescriptors)
		rec = func(ms protoreflect.MessageDescriptors) {
			for i := 0; i < ms.Len(); i++ {
				m := ms.Get(i)
				if t := gogoproto.MessageType(string(m.FullName())); t != nil && t.Implements(iface) {
					n := t
					for n.Kind() == reflect.Ptr {
						n = n.Elem()
					}
					res[n.Name()] = t
				}
				rec(m.Messages())
			}
		}
		rec(fd.Messages())
		return true
	})
	return res
}

func sortedKeys[T any](m map[string]T) []string {
	ks := make([]string, 0, len(m))
	for k := range m {
		ks = append(ks, k)
	}
	sort.Strings(ks)
	return ks
}
