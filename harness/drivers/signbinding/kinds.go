//go:build verif

package signbinding

// Kinds: for every kind of item a base object with realistic concrete values, a second concrete
// value for every field that the lattice may substitute, the crafted boundary-moving pairs, and
// the REAL digest function.  The file holds no expectation about which field a digest covers.

import (
	"bytes"
	"errors"
	"fmt"
	"math/big"
	"reflect"
	"strings"
	"sync"
	"time"

	"context"
	"encoding/hex"

	"cosmossdk.io/math"
	"github.com/cosmos/cosmos-sdk/codec"
	codectypes "github.com/cosmos/cosmos-sdk/codec/types"
	sdk "github.com/cosmos/cosmos-sdk/types"
	gogoproto "github.com/cosmos/gogoproto/proto"
	gethcommon "github.com/ethereum/go-ethereum/common"
	ethtypes "github.com/ethereum/go-ethereum/core/types"
	"github.com/ethereum/go-ethereum/crypto"
	palomacommon "github.com/palomachain/paloma/v2/testutil/common"
	"github.com/palomachain/paloma/v2/util/libcons"
	consensustypes "github.com/palomachain/paloma/v2/x/consensus/types"
	evmtypes "github.com/palomachain/paloma/v2/x/evm/types"
	"github.com/palomachain/paloma/v2/x/skyway"
	skywaytypes "github.com/palomachain/paloma/v2/x/skyway/types"
	valsettypes "github.com/palomachain/paloma/v2/x/valset/types"
	"verifharness/drv"
	"verifharness/env"
)

// item is one object whose digest is taken: the proto object, objects packed in Any fields of it
// (flattened into the field list), and pseudo-fields "@x" for values that reach the digest function
// as arguments rather than as fields.
type item struct {
	obj   any
	anys  map[string]any
	args  map[string]any
	after *prefixState // C11: history that happened before the item is submitted (nil: fresh world)
}

// pairResult is what running the real pooling code on two items gave.
type pairResult struct {
	da, db  []byte
	differs bool
	subs    []any // C11: every submission (who, accepted, and per attestation carrying its vote the fields in which the stored body differs from it)
	atts    []any // C11: every attestation found in the store afterwards (key, key recomputed from the stored body, votes, fields in which a voter's submission differs from the stored body)
}

// redeployDef: c0 is the claim observed before the re-deployment; after it the pair (a, b) reuses c0's nonce: a = base with
// the values `a`, b = a with the second values of the obligation's fields (`alt` overrides those that would coincide).
type redeployDef struct {
	c0  func() *item
	a   map[string]any
	alt map[string]any
}

// cand is one crafted pair of items with a description of the exact inputs.
type cand struct {
	a, b *item
	note string
}

// separators a plain join might use ("" = bare concatenation)
var seps = []string{"/", "|", ",", ":", ";", "\n", "\t", " ", "\x00", ""}

type kindDef struct {
	name   string
	family string
	expand map[string]bool
	base   func() *item
	// vals: second value per field path ("x[].y": []any, one per element)
	alt map[string]any
	// shift: crafted boundary-moving pairs (several candidates: one per plausible way of joining the parts),
	// keyed by the sorted field set joined with ","
	shift  map[string]func() []cand
	digest func(*item) ([]byte, error)
	// pair, if set, runs the real pooling code on both items and returns the two identities and whether they were kept apart
	pair func(a, b *item) (*pairResult, error)
	// class: crafted pairs for a value class of one field (mode -> field -> candidates): values that differ only in
	// letter case / surrounding whitespace (strings), only after byte 20 / only in the first 12 bytes / shorter than 20 (bytes32)
	class map[string]map[string]func() []cand
	// redeploy: the history prefix "claim c0 observed at nonce 1, bridge re-deployed" (C11)
	redeploy *redeployDef
}

var (
	cdc  codec.Codec
	valA string // a validator operator address
	accA string // an account address
	accB string // another account address
)

func init() {
	palomacommon.SetupPalomaPrefixes()
	valA = sdk.ValAddress(bytes.Repeat([]byte{0x5c}, 20)).String()
	accA = sdk.AccAddress(bytes.Repeat([]byte{0x5c}, 20)).String()
	accB = sdk.AccAddress(bytes.Repeat([]byte{0x01}, 20)).String()
	reg := codectypes.NewInterfaceRegistry()
	consensustypes.RegisterInterfaces(reg)
	evmtypes.RegisterInterfaces(reg)
	skywaytypes.RegisterInterfaces(reg)
	cdc = codec.NewProtoCodec(reg)
}

const (
	addrA  = "0x1111111111111111111111111111111111111111"
	addrB  = "0x2222222222222222222222222222222222222222"
	addrC  = "0x3333333333333333333333333333333333333333"
	addrD  = "0x4444444444444444444444444444444444444444"
	addrE  = "0x5555555555555555555555555555555555555555"
	addrF  = "0x6666666666666666666666666666666666666666"
	relayA = "0x7777777777777777777777777777777777777777"
	relayB = "0x8888888888888888888888888888888888888888"
	tsA    = "compass-eth-a-1"
	tsB    = "compass-eth-a-2"
)

// ---------------------------------------------------------------------------------------------
// C05: queued cross-chain messages
// ---------------------------------------------------------------------------------------------

func qsmItem(m *evmtypes.Message) *item {
	q := &consensustypes.QueuedSignedMessage{
		Id:                 41,
		AddedAtBlockHeight: 1000,
		AddedAt:            time.Date(2024, 1, 1, 12, 0, 0, 0, time.UTC),
		RequireSignatures:  true,
		FlagMask:           consensustypes.BuildFlagMask(true),
		GasEstimate:        210000,
		SignData:           []*consensustypes.SignData{},
		GasEstimates:       []*consensustypes.GasEstimate{},
	}
	return &item{obj: q, anys: map[string]any{"msg": m}, args: map[string]any{}}
}

func baseMessage() *evmtypes.Message {
	return &evmtypes.Message{
		TurnstoneID:           tsA,
		ChainReferenceID:      "eth-a",
		CompassAddr:           addrF,
		Assignee:              valA,
		AssignedAtBlockHeight: math.NewInt(990),
		AssigneeRemoteAddress: relayA,
	}
}

// qsmDigest is what a validator is asked to sign: the message is stored and loaded the way the
// queue does (MarshalInterface / UnmarshalInterface) and then GetBytesToSign is taken.
func qsmDigest(it *item) ([]byte, error) {
	q := it.obj.(*consensustypes.QueuedSignedMessage)
	m := it.anys["msg"].(*evmtypes.Message)
	a, err := codectypes.NewAnyWithValue(m)
	if err != nil {
		return nil, err
	}
	q.Msg = a
	bz, err := cdc.MarshalInterface(q)
	if err != nil {
		return nil, err
	}
	var sm consensustypes.QueuedSignedMessageI
	if err := cdc.UnmarshalInterface(bz, &sm); err != nil {
		return nil, err
	}
	return sm.GetBytesToSign(cdc)
}

var qsmCommonAlt = map[string]any{
	"id":                        uint64(42),
	"gasEstimate":               uint64(250000),
	"msg.turnstoneID":           tsB,
	"msg.assigneeRemoteAddress": relayB,
}

func withCommon(m map[string]any) map[string]any {
	for k, v := range qsmCommonAlt {
		m[k] = v
	}
	return m
}

func kindSubmitLogicCall() *kindDef {
	k := &kindDef{
		name: "SubmitLogicCall", family: "C05",
		base: func() *item {
			m := baseMessage()
			m.Action = &evmtypes.Message_SubmitLogicCall{SubmitLogicCall: &evmtypes.SubmitLogicCall{
				HexContractAddress: addrA,
				Abi:                []byte(`[{"name":"foo","type":"function","inputs":[]}]`),
				Payload:            gethcommon.FromHex("0xc2985578000000000000000000000000000000000000000000000000000000000000002a"),
				Deadline:           1704110400,
				SenderAddress:      sdk.MustAccAddressFromBech32(accA).Bytes(),
				ContractAddress:    sdk.MustAccAddressFromBech32(accA).Bytes(),
				Fees:               &evmtypes.Fees{RelayerFee: 231000, CommunityFee: 23100, SecurityFee: 2310},
			}}
			return qsmItem(m)
		},
		alt: withCommon(map[string]any{
			"msg.submitLogicCall.hexContractAddress": addrB,
			"msg.submitLogicCall.payload":            gethcommon.FromHex("0xc2985578000000000000000000000000000000000000000000000000000000000000002b"),
			"msg.submitLogicCall.deadline":           int64(1704110460),
			"msg.submitLogicCall.senderAddress":      bytes.Repeat([]byte{0xab}, 20),
			"msg.submitLogicCall.fees.relayerFee":    uint64(231001),
			"msg.submitLogicCall.fees.communityFee":  uint64(23101),
			"msg.submitLogicCall.fees.securityFee":   uint64(2311),
		}),
		digest: qsmDigest,
	}
	k.class = bytes32Classes(k.base, "msg.submitLogicCall.senderAddress")
	return k
}

func kindUploadUserSmartContract() *kindDef {
	k := &kindDef{
		name: "UploadUserSmartContract", family: "C05",
		base: func() *item {
			m := baseMessage()
			m.Action = &evmtypes.Message_UploadUserSmartContract{UploadUserSmartContract: &evmtypes.UploadUserSmartContract{
				Bytecode:        gethcommon.FromHex("0x6080604052348015600f57600080fd5b50603f80601d6000396000f3fe"),
				DeployerAddress: addrA,
				Deadline:        1704110400,
				SenderAddress:   sdk.MustAccAddressFromBech32(accA).Bytes(),
				BlockHeight:     1000,
				Id:              7,
				Fees:            &evmtypes.Fees{RelayerFee: 231000, CommunityFee: 23100, SecurityFee: 2310},
			}}
			return qsmItem(m)
		},
		alt: withCommon(map[string]any{
			"msg.uploadUserSmartContract.deployerAddress":   addrB,
			"msg.uploadUserSmartContract.bytecode":          gethcommon.FromHex("0x6080604052348015600f57600080fd5b50603f80601d6000396000f3ff"),
			"msg.uploadUserSmartContract.deadline":          int64(1704110460),
			"msg.uploadUserSmartContract.senderAddress":     bytes.Repeat([]byte{0xab}, 20),
			"msg.uploadUserSmartContract.fees.relayerFee":   uint64(231001),
			"msg.uploadUserSmartContract.fees.communityFee": uint64(23101),
			"msg.uploadUserSmartContract.fees.securityFee":  uint64(2311),
		}),
		digest: qsmDigest,
	}
	k.class = bytes32Classes(k.base, "msg.uploadUserSmartContract.senderAddress")
	return k
}

func kindUploadSmartContract() *kindDef {
	return &kindDef{
		name: "UploadSmartContract", family: "C05",
		base: func() *item {
			m := baseMessage()
			m.Action = &evmtypes.Message_UploadSmartContract{UploadSmartContract: &evmtypes.UploadSmartContract{
				Bytecode:         gethcommon.FromHex("0x6080604052348015600f57600080fd5b50603f80601d6000396000f3fe"),
				Abi:              `[{"type":"constructor","inputs":[{"name":"x","type":"uint256"}]}]`,
				ConstructorInput: gethcommon.LeftPadBytes([]byte{42}, 32),
				Id:               3,
			}}
			return qsmItem(m)
		},
		alt: withCommon(map[string]any{
			"msg.uploadSmartContract.bytecode": gethcommon.FromHex("0x6080604052348015600f57600080fd5b50603f80601d6000396000f3ff"),
		}),
		digest: qsmDigest,
	}
}

func kindUpdateValset() *kindDef {
	return &kindDef{
		name: "UpdateValset", family: "C05",
		base: func() *item {
			m := baseMessage()
			m.Action = &evmtypes.Message_UpdateValset{UpdateValset: &evmtypes.UpdateValset{Valset: &evmtypes.Valset{
				Validators: []string{addrA, addrB, addrC},
				Powers:     []uint64{1431655765, 1431655765, 1431655766},
				ValsetID:   17,
			}}}
			return qsmItem(m)
		},
		alt: withCommon(map[string]any{
			"msg.updateValset.valset.validators": []string{addrA, addrB, addrD},
			"msg.updateValset.valset.powers":     []uint64{1431655765, 1431655766, 1431655765},
			"msg.updateValset.valset.valsetID":   uint64(18),
		}),
		digest: qsmDigest,
	}
}

func kindCompassHandover() *kindDef {
	return &kindDef{
		name: "CompassHandover", family: "C05",
		expand: map[string]bool{"msg.compassHandover.forwardCallArgs": true},
		base: func() *item {
			m := baseMessage()
			m.Action = &evmtypes.Message_CompassHandover{CompassHandover: &evmtypes.CompassHandover{
				Id: 5,
				ForwardCallArgs: []evmtypes.CompassHandover_ForwardCallArgs{
					{HexContractAddress: addrA, Payload: gethcommon.FromHex("0xaabbccdd0000000000000000000000000000000000000000000000000000000000000001")},
					{HexContractAddress: addrB, Payload: gethcommon.FromHex("0xaabbccdd0000000000000000000000000000000000000000000000000000000000000002")},
				},
				Deadline: 1704110400,
			}}
			return qsmItem(m)
		},
		alt: withCommon(map[string]any{
			"msg.compassHandover.forwardCallArgs[].hexContractAddress": []any{addrC, addrD},
			"msg.compassHandover.forwardCallArgs[].payload": []any{
				gethcommon.FromHex("0xaabbccdd0000000000000000000000000000000000000000000000000000000000000003"),
				gethcommon.FromHex("0xaabbccdd0000000000000000000000000000000000000000000000000000000000000004")},
			"msg.compassHandover.deadline": int64(1704110460),
		}),
		digest: qsmDigest,
	}
}

// ---------------------------------------------------------------------------------------------
// C05: skyway batch
// ---------------------------------------------------------------------------------------------

func kindOutgoingTxBatch() *kindDef {
	return &kindDef{
		name: "OutgoingTxBatch", family: "C05",
		expand: map[string]bool{"transactions": true},
		base: func() *item {
			tx := func(id uint64, dest string, amt int64) skywaytypes.OutgoingTransferTx {
				return skywaytypes.OutgoingTransferTx{Id: id, Sender: accA, DestAddress: dest,
					Erc20Token:      skywaytypes.ERC20Token{Contract: addrA, Amount: math.NewInt(amt), ChainReferenceId: "eth-a"},
					BridgeTaxAmount: math.NewInt(0)}
			}
			b := &skywaytypes.OutgoingTxBatch{
				BatchNonce:            9,
				BatchTimeout:          19000000,
				Transactions:          []skywaytypes.OutgoingTransferTx{tx(1, addrC, 1000), tx(2, addrD, 2500)},
				TokenContract:         addrA,
				PalomaBlockCreated:    1000,
				ChainReferenceId:      "eth-a",
				Assignee:              valA,
				GasEstimate:           210000,
				AssigneeRemoteAddress: gethcommon.HexToAddress(relayA).Bytes(),
			}
			return &item{obj: b, anys: map[string]any{}, args: map[string]any{"@turnstoneID": tsA}}
		},
		alt: map[string]any{
			"batch_nonce":                       uint64(10),
			"batch_timeout":                     uint64(19000050),
			"token_contract":                    addrB,
			"gas_estimate":                      uint64(250000),
			"assignee_remote_address":           gethcommon.HexToAddress(relayB).Bytes(),
			"transactions[].dest_address":       []any{addrE, addrF},
			"transactions[].erc20_token.amount": []any{math.NewInt(1001), math.NewInt(2499)},
			"@turnstoneID":                      tsB,
		},
		digest: func(it *item) ([]byte, error) {
			b := it.obj.(*skywaytypes.OutgoingTxBatch)
			// the batch as it is stored and loaded (proto round trip), then the checkpoint
			bz, err := cdc.Marshal(b)
			if err != nil {
				return nil, err
			}
			var b2 skywaytypes.OutgoingTxBatch
			if err := cdc.Unmarshal(bz, &b2); err != nil {
				return nil, err
			}
			return b2.GetCheckpoint(it.args["@turnstoneID"].(string))
		},
	}
}

// ---------------------------------------------------------------------------------------------
// C11: claims.  Digest = the key under which votes are pooled: store prefix (chain) ++ attestation key.
// ---------------------------------------------------------------------------------------------

// claimWorld is the E1 environment (real skyway keeper, two activated chains) on which claims are attested.
var (
	claimWorldOnce sync.Once
	claimWorld     *env.E1
)

func world() *env.E1 {
	claimWorldOnce.Do(func() {
		claimWorld = env.NewE1(env.E1Options{Seed: drv.Seed(), Chains: []string{"eth-a", "eth-b"}, Powers: []int64{10, 10, 10}})
	})
	return claimWorld
}

func attKeys(ctx sdk.Context, e *env.E1) map[string]bool {
	res := map[string]bool{}
	it := ctx.KVStore(e.Keys[skywaytypes.StoreKey]).Iterator(nil, nil)
	defer it.Close()
	for ; it.Valid(); it.Next() {
		if bytes.Contains(it.Key(), skywaytypes.OracleAttestationKey) {
			res[string(it.Key())] = true
		}
	}
	return res
}

// submission is what one validator handed to the msg server.
type submission struct {
	val       env.Val
	submitted gogoproto.Message // snapshot taken before the call
	key       []byte            // raw store key of the attestation this submission created (nil: none)
	refused   string            // "" or why the claim never reached an attestation
}

// submitClaim sends the claim the way a transaction would: ValidateBasic (baseapp), then the REAL msg server on a cache
// context written on success.  The legacy MsgBatchSendToEthClaim has no msg-server endpoint and goes to Keeper.Attest.
func submitClaim(ctx sdk.Context, e *env.E1, it *item, v env.Val) (*submission, error) {
	c, ok := it.obj.(skywaytypes.EthereumClaim)
	if !ok {
		return nil, fmt.Errorf("%T is not an EthereumClaim", it.obj)
	}
	c.SetOrchestrator(v.Acc)
	if err := setPath(it.obj, "metadata.creator", v.Acc.String(), nil); err != nil {
		return nil, err
	}
	if err := setPath(it.obj, "metadata.signers", []string{v.Acc.String()}, nil); err != nil {
		return nil, err
	}
	if c.GetSkywayNonce() == 0 {
		return nil, errors.New("nonce 0")
	}
	if err := e.Skyway.SetLastSkywayNonceByValidator(ctx, v.Val, c.GetChainReferenceId(), c.GetSkywayNonce()-1); err != nil {
		return nil, err
	}
	pm, ok := it.obj.(gogoproto.Message)
	if !ok {
		return nil, fmt.Errorf("%T is not a proto message", it.obj)
	}
	snap, err := cloneMsg(pm)
	if err != nil {
		return nil, err
	}
	sub := &submission{val: v, submitted: snap}
	if err := c.ValidateBasic(); err != nil {
		sub.refused = "ValidateBasic: " + err.Error()
		return sub, nil
	}
	before := attKeys(ctx, e)
	err, _ = env.RunMsg(ctx, func(ctx sdk.Context) error {
		switch m := it.obj.(type) {
		case *skywaytypes.MsgSendToPalomaClaim:
			_, err := e.SkywayMsg.SendToPalomaClaim(ctx, m)
			return err
		case *skywaytypes.MsgBatchSendToRemoteClaim:
			_, err := e.SkywayMsg.BatchSendToRemoteClaim(ctx, m)
			return err
		case *skywaytypes.MsgLightNodeSaleClaim:
			_, err := e.SkywayMsg.LightNodeSaleClaim(ctx, m)
			return err
		default:
			anyc, err := codectypes.NewAnyWithValue(pm)
			if err != nil {
				return err
			}
			_, err = e.Skyway.Attest(ctx, c, anyc)
			return err
		}
	})
	for k := range attKeys(ctx, e) {
		if !before[k] {
			sub.key = []byte(k)
		}
	}
	if err != nil {
		sub.refused = err.Error()
	}
	return sub, nil
}

// cloneMsg copies a message through its wire form.
func cloneMsg(m gogoproto.Message) (gogoproto.Message, error) {
	bz, err := gogoproto.Marshal(m)
	if err != nil {
		return nil, err
	}
	n := reflect.New(reflect.TypeOf(m).Elem()).Interface().(gogoproto.Message)
	if err := gogoproto.Unmarshal(bz, n); err != nil {
		return nil, err
	}
	return n, nil
}

// bodyKey recomputes, from a claim body, the store key its attestation belongs under.
func bodyKey(c skywaytypes.EthereumClaim) ([]byte, error) {
	h, err := c.ClaimHash()
	if err != nil {
		return nil, err
	}
	return append([]byte(c.GetChainReferenceId()), skywaytypes.GetAttestationKey(c.GetSkywayNonce(), h)...), nil
}

// storedAtts reads every attestation out of the raw module store.
func storedAtts(ctx sdk.Context, e *env.E1) (map[string]*skywaytypes.Attestation, error) {
	res := map[string]*skywaytypes.Attestation{}
	for k := range attKeys(ctx, e) {
		var att skywaytypes.Attestation
		if err := e.Cdc.Unmarshal(ctx.KVStore(e.Keys[skywaytypes.StoreKey]).Get([]byte(k)), &att); err != nil {
			return nil, err
		}
		res[k] = &att
	}
	return res, nil
}

func hasVote(att *skywaytypes.Attestation, v env.Val) bool {
	for _, x := range att.Votes {
		if x == v.Val.String() {
			return true
		}
	}
	return false
}

// newHome returns the key of the attestation on which v's vote appeared between two snapshots of the store.
func newHome(before, after map[string]*skywaytypes.Attestation, v env.Val) []byte {
	for _, k := range sortedKeys(after) {
		if hasVote(after[k], v) && (before[k] == nil || !hasVote(before[k], v)) {
			return []byte(k)
		}
	}
	return nil
}

// observeAtts lists every attestation in the raw module store: its key, the key recomputed from the STORED body, the
// number of votes and, per recorded voter, the fields in which each of that voter's submissions differs from the stored
// body; and per submission, the same for every attestation that carries the submitter's vote.
func observeAtts(ctx sdk.Context, e *env.E1, subs []*submission) (atts []any, subsOut []any, err error) {
	atts, subsOut = []any{}, []any{}
	stored, err := storedAtts(ctx, e)
	if err != nil {
		return nil, nil, err
	}
	bodies := map[string]skywaytypes.EthereumClaim{}
	for _, k := range sortedKeys(stored) {
		att := stored[k]
		body, err := e.Skyway.UnpackAttestationClaim(att)
		if err != nil {
			return nil, nil, err
		}
		bodies[k] = body
		bk, err := bodyKey(body)
		if err != nil {
			return nil, nil, err
		}
		voters := []any{}
		unknown := 0
		for _, vote := range att.Votes {
			ds := []any{}
			for _, s := range subs {
				if s.val.Val.String() == vote {
					ds = append(ds, diffFields(body, s.submitted))
				}
			}
			if len(ds) == 0 {
				unknown++
			}
			voters = append(voters, ds)
		}
		atts = append(atts, map[string]any{"key": hex.EncodeToString([]byte(k)), "body_key": hex.EncodeToString(bk), "votes": len(att.Votes),
			"unknown_voters": unknown, "observed": att.Observed, "voters": voters})
	}
	for _, s := range subs {
		homes := []any{}
		for _, k := range sortedKeys(stored) {
			if hasVote(stored[k], s.val) {
				homes = append(homes, diffFields(bodies[k], s.submitted))
			}
		}
		r := s.refused
		if len(r) > 80 {
			r = r[:80]
		}
		subsOut = append(subsOut, map[string]any{"who": s.val.Idx, "accepted": s.refused == "", "refused": r, "homes": homes})
	}
	return atts, subsOut, nil
}

// prefixState is a prepared branch of the world: history that happened before the two claims of an obligation.
type prefixState struct {
	ctx  sdk.Context
	subs []*submission
	err  error
}

var prefixes = map[string]*prefixState{}

// redeployPrefix: every validator reports claim c0 at nonce 1 under the deployment the environment was set up with, the
// real end blocker observes it, and the bridge is re-deployed (evm.ActivateChainReferenceID with a new unique id: skyway
// resets its nonces; the observed attestation stays in the store).
func redeployPrefix(name string, c0 func() *item) *prefixState {
	if p, ok := prefixes[name]; ok {
		return p
	}
	e := world()
	p := &prefixState{}
	prefixes[name] = p
	ctx, _ := e.Ctx.CacheContext()
	ctx = ctx.WithBlockHeight(1001)
	p.ctx = ctx
	for _, v := range e.Vals {
		s, err := submitClaim(ctx, e, c0(), v)
		if err != nil {
			p.err = err
			return p
		}
		if s.refused != "" {
			p.err = fmt.Errorf("prefix claim refused: %s", s.refused)
			return p
		}
		p.subs = append(p.subs, s)
	}
	skyway.EndBlocker(ctx, e.Skyway, libcons.New(e.Valset.GetCurrentSnapshot, e.Cdc))
	stored, err := storedAtts(ctx, e)
	if err != nil {
		p.err = err
		return p
	}
	observed := 0
	for _, a := range stored {
		if a.Observed {
			observed++
		}
	}
	if observed != 1 {
		p.err = fmt.Errorf("prefix: %d observed attestations after the end blocker, want 1", observed)
		return p
	}
	if err := e.Evm.ActivateChainReferenceID(ctx, "eth-a", &evmtypes.SmartContract{Id: 2}, "0x00000000000000000000000000000000c0de0002", []byte(tsB)); err != nil {
		p.err = err
		return p
	}
	if got := e.Skyway.GetLatestCompassID(ctx, "eth-a"); got != tsB {
		p.err = fmt.Errorf("prefix: latest compass id %q after re-deployment", got)
		return p
	}
	if n, err := e.Skyway.GetLastObservedSkywayNonce(ctx, "eth-a"); err != nil || n != 0 {
		p.err = fmt.Errorf("prefix: last observed nonce %d (%v) after re-deployment, want 0", n, err)
	}
	return p
}

// claimOrder lets validator 0 submit x and then validator 1 submit y (ValidateBasic + the REAL msg server, one fresh
// branch of the prepared world, or of the world after a history prefix) and reads back, from the raw module store, the
// attestations that now exist.  The home of a submission is the attestation on which its vote appeared.  Two accepted
// claims are kept apart iff both have a home and the homes differ.  A claim refused by ValidateBasic never reaches the
// state (kept apart); a claim refused later counts as kept apart unless the key it would have been filed under is the
// other claim's home.
func claimOrder(x, y *item) (*pairResult, error) {
	e := world()
	base := e.Ctx
	var prior []*submission
	if x.after != nil {
		if x.after.err != nil {
			return nil, fmt.Errorf("history prefix: %w", x.after.err)
		}
		base, prior = x.after.ctx, x.after.subs
	}
	ctx, _ := base.CacheContext()
	clone := func(it *item) (*item, error) {
		m, err := cloneMsg(it.obj.(gogoproto.Message))
		if err != nil {
			return nil, err
		}
		return claimItem(m), nil
	}
	cx, err := clone(x)
	if err != nil {
		return nil, err
	}
	cy, err := clone(y)
	if err != nil {
		return nil, err
	}
	s0, err := storedAtts(ctx, e)
	if err != nil {
		return nil, err
	}
	sx, err := submitClaim(ctx, e, cx, e.Vals[0])
	if err != nil {
		return nil, fmt.Errorf("submit first claim: %w", err)
	}
	s1, err := storedAtts(ctx, e)
	if err != nil {
		return nil, err
	}
	sy, err := submitClaim(ctx, e, cy, e.Vals[1])
	if err != nil {
		return nil, fmt.Errorf("submit second claim: %w", err)
	}
	s2, err := storedAtts(ctx, e)
	if err != nil {
		return nil, err
	}
	if sx.refused != "" && sy.refused != "" {
		return nil, fmt.Errorf("neither claim was accepted: %q / %q", sx.refused, sy.refused)
	}
	hx, hy := newHome(s0, s1, sx.val), newHome(s1, s2, sy.val)
	atts, subs, err := observeAtts(ctx, e, append(append([]*submission{}, prior...), sx, sy))
	if err != nil {
		return nil, err
	}
	r := &pairResult{da: hx, db: hy, atts: atts, subs: subs}
	would := func(s *submission) []byte {
		k, err := bodyKey(s.submitted.(skywaytypes.EthereumClaim))
		if err != nil {
			return nil
		}
		return k
	}
	switch {
	case sx.refused == "" && sy.refused == "":
		r.differs = hx != nil && hy != nil && !bytes.Equal(hx, hy)
	case sx.refused != "":
		r.da = would(sx)
		r.differs = strings.HasPrefix(sx.refused, "ValidateBasic:") || (hy != nil && !bytes.Equal(r.da, hy))
	default:
		r.db = would(sy)
		r.differs = strings.HasPrefix(sy.refused, "ValidateBasic:") || (hx != nil && !bytes.Equal(r.db, hx))
	}
	// a vote that appeared nowhere: show the key it should have been filed under
	if r.da == nil {
		r.da = would(sx)
	}
	if r.db == nil {
		r.db = would(sy)
	}
	return r, nil
}

// claimPair submits the two claims in BOTH orders (whose body is stored depends on who is first); the claims are kept
// apart only if they are in both.
func claimPair(a, b *item) (*pairResult, error) {
	r1, err := claimOrder(a, b)
	if err != nil {
		return nil, err
	}
	b.after = a.after
	r2, err := claimOrder(b, a)
	if err != nil {
		return nil, fmt.Errorf("reverse order: %w", err)
	}
	r := &pairResult{da: r1.da, db: r1.db, differs: r1.differs && r2.differs, atts: append(r1.atts, r2.atts...), subs: append(r1.subs, r2.subs...)}
	if r1.differs && !r2.differs {
		r.da, r.db = r2.db, r2.da
	}
	return r, nil
}

var claimCommonAlt = map[string]any{
	"skyway_nonce":       uint64(8),
	"eth_block_height":   uint64(19000001),
	"chain_reference_id": "eth-b",
	"compass_id":         tsB,
}

func withClaimCommon(m map[string]any) map[string]any {
	for k, v := range claimCommonAlt {
		if _, ok := m[k]; !ok {
			m[k] = v
		}
	}
	return m
}

func meta() valsettypes.MsgMetadata {
	return valsettypes.MsgMetadata{Creator: accA, Signers: []string{accA}}
}

func sendToPaloma() *skywaytypes.MsgSendToPalomaClaim {
	return &skywaytypes.MsgSendToPalomaClaim{EventNonce: 7, EthBlockHeight: 19000000, TokenContract: addrA, Amount: math.NewInt(1000),
		EthereumSender: addrC, PalomaReceiver: accA, Orchestrator: accA, ChainReferenceId: "eth-a", Metadata: meta(), SkywayNonce: 7, CompassId: tsA}
}

func lightNodeSale() *skywaytypes.MsgLightNodeSaleClaim {
	return &skywaytypes.MsgLightNodeSaleClaim{Metadata: meta(), EventNonce: 7, EthBlockHeight: 19000000, Orchestrator: accA, ChainReferenceId: "eth-a",
		SkywayNonce: 7, ClientAddress: accA, Amount: math.NewInt(5000), SmartContractAddress: addrA, CompassId: tsA}
}

// textClasses builds, for the string fields of a claim, the pairs that differ ONLY in letter case and ONLY by
// surrounding whitespace.  letterful: a realistic value of the field that contains letters, and its mixed-case twin.
func textClasses(base func() *item, letterful map[string][2]string) map[string]map[string]func() []cand {
	res := map[string]map[string]func() []cand{"case": {}, "space": {}, "dot": {}, "trail": {}, "dotdot": {}, "dslash": {}, "empty": {}}
	for f, vs := range letterful {
		f, vs := f, vs
		mk := func(va, vb string) (cand, error) {
			a, b := base(), base()
			if err := setPath(a.obj, f, va, nil); err != nil {
				return cand{}, err
			}
			if err := setPath(b.obj, f, vb, nil); err != nil {
				return cand{}, err
			}
			return cand{a, b, fmt.Sprintf("%s=%q ~ %s=%q, all else equal", f, va, f, vb)}, nil
		}
		res["case"][f] = func() []cand {
			c, err := mk(vs[0], vs[1])
			if err != nil {
				panic(err)
			}
			return []cand{c}
		}
		res["space"][f] = func() []cand {
			var cs []cand
			for _, w := range [][2]string{{" ", ""}, {"", " "}, {"\t", ""}, {"", "\n"}, {" ", " "}} {
				c, err := mk(vs[0], w[0]+vs[0]+w[1])
				if err != nil {
					panic(err)
				}
				cs = append(cs, c)
			}
			return cs
		}
		several := func(pairs ...[2]string) func() []cand {
			return func() []cand {
				var cs []cand
				for _, p := range pairs {
					c, err := mk(p[0], p[1])
					if err != nil {
						panic(err)
					}
					cs = append(cs, c)
				}
				return cs
			}
		}
		v, h := vs[0], len(vs[0])/2
		// values an over-eager "path cleaning" / element-dropping join identifies
		res["dot"][f] = several([2]string{v, "./" + v}, [2]string{v, v + "/."}, [2]string{v, v[:h] + "/./" + v[h:]})
		res["trail"][f] = several([2]string{v, v + "/"}, [2]string{v, "/" + v})
		res["dotdot"][f] = several([2]string{v, "x/../" + v}, [2]string{v, v + "/x/.."})
		res["dslash"][f] = several([2]string{v[:h] + "/" + v[h:], v[:h] + "//" + v[h:]})
	}
	return res
}

// emptyCands: an element that is empty while its content sits in the neighbouring field (first precedes second in the
// digest input): (first="", second=v) ~ (first=v, second=""), and (first=v, second=w) ~ (first="", second=v/w), (first=v/w, second="").
func emptyCands(base func() *item, first, second, v, w string) func() []cand {
	return func() []cand {
		mk := func(a1, a2, b1, b2 string) cand {
			a, b := base(), base()
			for _, x := range []struct {
				it   *item
				f, v string
			}{{a, first, a1}, {a, second, a2}, {b, first, b1}, {b, second, b2}} {
				if err := setPath(x.it.obj, x.f, x.v, nil); err != nil {
					panic(err)
				}
			}
			return cand{a, b, fmt.Sprintf("(%s=%q, %s=%q) ~ (%s=%q, %s=%q), all else equal", first, a1, second, a2, first, b1, second, b2)}
		}
		return []cand{mk(v, "", "", v), mk(v, w, "", v+"/"+w), mk(v, w, v+"/"+w, "")}
	}
}

const (
	hexLower = "0xabcdefabcdefabcdefabcdefabcdefabcdefabcd"
	hexMixed = "0xABCDEFabcdefABCDEFabcdefabcdefABCDEFabcd"
)

func mixedCase(s string) string {
	h := len(s) / 2
	return strings.ToUpper(s[:h]) + s[h:]
}

// bytes32Classes builds, for a bytes field that is delivered left-padded to 32 bytes, the pairs that differ only after
// byte 20, only in the first 12 bytes, and values shorter than 20 bytes.
func bytes32Classes(base func() *item, f string) map[string]map[string]func() []cand {
	seq := func(n int) []byte {
		b := make([]byte, n)
		for i := range b {
			b[i] = byte(0x11 + i)
		}
		return b
	}
	mk := func(va, vb []byte) cand {
		a, b := base(), base()
		if err := setPath(a.obj, f, va, a.anys); err != nil {
			panic(err)
		}
		if err := setPath(b.obj, f, vb, b.anys); err != nil {
			panic(err)
		}
		return cand{a, b, fmt.Sprintf("%s=0x%x ~ 0x%x, all else equal", f, va, vb)}
	}
	flip := func(b []byte, i int) []byte {
		c := append([]byte{}, b...)
		c[i] ^= 0x80
		return c
	}
	return map[string]map[string]func() []cand{
		"tail": {f: func() []cand {
			return []cand{mk(seq(32), flip(seq(32), 31)), mk(seq(32), flip(seq(32), 20)), mk(seq(21), flip(seq(21), 20))}
		}},
		"head": {f: func() []cand {
			return []cand{mk(seq(32), flip(seq(32), 0)), mk(seq(32), flip(seq(32), 11))}
		}},
		"short": {f: func() []cand {
			return []cand{mk(seq(8), flip(seq(8), 0)), mk(seq(8), flip(seq(8), 7)), mk(seq(8), seq(20)), mk(seq(19), seq(20))}
		}},
	}
}

// lnsCands builds one crafted pair of light-node-sale claims per separator.
func lnsCands(set func(sep string, a, b *skywaytypes.MsgLightNodeSaleClaim)) []cand {
	var cs []cand
	for _, sep := range seps {
		a, b := lightNodeSale(), lightNodeSale()
		set(sep, a, b)
		d := func(c *skywaytypes.MsgLightNodeSaleClaim) string {
			return fmt.Sprintf("(client_address=%q, amount=%s, smart_contract_address=%q, compass_id=%q)", c.ClientAddress, c.Amount, c.SmartContractAddress, c.CompassId)
		}
		cs = append(cs, cand{claimItem(a), claimItem(b), d(a) + " ~ " + d(b) + ", all else equal"})
	}
	return cs
}

func claimItem(c any) *item { return &item{obj: c, anys: map[string]any{}, args: map[string]any{}} }

func kindsC11() []*kindDef {
	ks := kindsC11raw()
	letterful := map[string]map[string][2]string{
		"MsgSendToPalomaClaim": {
			"token_contract": {hexLower, hexMixed}, "ethereum_sender": {hexLower, hexMixed}, "paloma_receiver": {accA, mixedCase(accA)},
			"compass_id": {tsA, mixedCase(tsA)}, "chain_reference_id": {"eth-a", "ETH-a"},
		},
		"MsgBatchSendToRemoteClaim": {"token_contract": {hexLower, hexMixed}, "compass_id": {tsA, mixedCase(tsA)}, "chain_reference_id": {"eth-a", "ETH-a"}},
		"MsgLightNodeSaleClaim": {
			"client_address": {accA, mixedCase(accA)}, "smart_contract_address": {hexLower, hexMixed},
			"compass_id": {tsA, mixedCase(tsA)}, "chain_reference_id": {"eth-a", "ETH-a"},
		},
		"MsgBatchSendToEthClaim": {"token_contract": {hexLower, hexMixed}, "chain_reference_id": {"eth-a", "ETH-a"}},
	}
	for _, k := range ks {
		k.class = textClasses(k.base, letterful[k.name])
	}
	for _, k := range ks {
		k := k
		if k.name == "MsgBatchSendToEthClaim" {
			continue // the legacy claim carries no compass id and is never tallied once a deployment id is recorded
		}
		k.redeploy = &redeployDef{
			c0: func() *item {
				it := k.base()
				for f, v := range map[string]any{"skyway_nonce": uint64(1), "event_nonce": uint64(1)} {
					if err := setPath(it.obj, f, v, nil); err != nil {
						panic(err)
					}
				}
				return it
			},
			a:   map[string]any{"skyway_nonce": uint64(1), "event_nonce": uint64(1), "compass_id": tsB, "eth_block_height": uint64(19000250)},
			alt: map[string]any{"skyway_nonce": uint64(2), "compass_id": tsA},
		}
	}
	for _, k := range ks {
		switch k.name {
		case "MsgSendToPalomaClaim":
			k.class["empty"]["compass_id,paloma_receiver"] = emptyCands(k.base, "paloma_receiver", "compass_id", accA, tsA)
		case "MsgLightNodeSaleClaim":
			k.class["empty"]["compass_id,smart_contract_address"] = emptyCands(k.base, "smart_contract_address", "compass_id", hexLower, tsA)
		}
	}
	return ks
}

func kindsC11raw() []*kindDef {
	return []*kindDef{
		{
			name: "MsgSendToPalomaClaim", family: "C11",
			base: func() *item { return claimItem(sendToPaloma()) },
			alt: withClaimCommon(map[string]any{
				"token_contract":  addrB,
				"amount":          math.NewInt(1001),
				"ethereum_sender": addrD,
				"paloma_receiver": accB,
			}),
			shift: map[string]func() []cand{
				"compass_id,paloma_receiver": func() []cand {
					var cs []cand
					for _, sep := range seps {
						a, b := sendToPaloma(), sendToPaloma()
						a.PalomaReceiver, a.CompassId = "x"+sep+"y", "z"
						b.PalomaReceiver, b.CompassId = "x", "y"+sep+"z"
						cs = append(cs, cand{claimItem(a), claimItem(b),
							fmt.Sprintf("(paloma_receiver=%q, compass_id=%q) ~ (paloma_receiver=%q, compass_id=%q), all else equal", a.PalomaReceiver, a.CompassId, b.PalomaReceiver, b.CompassId)})
					}
					return cs
				},
			},
			pair: claimPair,
		},
		{
			name: "MsgBatchSendToRemoteClaim", family: "C11",
			base: func() *item {
				return claimItem(&skywaytypes.MsgBatchSendToRemoteClaim{EventNonce: 7, EthBlockHeight: 19000000, BatchNonce: 9, TokenContract: addrA,
					ChainReferenceId: "eth-a", Orchestrator: accA, Metadata: meta(), SkywayNonce: 7, CompassId: tsA})
			},
			alt:  withClaimCommon(map[string]any{"batch_nonce": uint64(10), "token_contract": addrB}),
			pair: claimPair,
		},
		{
			name: "MsgLightNodeSaleClaim", family: "C11",
			base: func() *item { return claimItem(lightNodeSale()) },
			alt: withClaimCommon(map[string]any{
				"client_address":         accB,
				"amount":                 math.NewInt(5001),
				"smart_contract_address": addrB,
			}),
			shift: map[string]func() []cand{
				// client_address, smart_contract_address and compass_id are unvalidated strings; the amount between
				// client_address and smart_contract_address is a number and can be re-cut out of / into its neighbours
				"amount,client_address,smart_contract_address": func() []cand {
					return lnsCands(func(sep string, a, b *skywaytypes.MsgLightNodeSaleClaim) {
						a.ClientAddress, a.Amount, a.SmartContractAddress = "c"+sep+"5", math.NewInt(7), "k"
						b.ClientAddress, b.Amount, b.SmartContractAddress = "c", math.NewInt(5), "7"+sep+"k"
						if sep == "" {
							a.ClientAddress, a.Amount, a.SmartContractAddress = "c5", math.NewInt(7), "k"
							b.ClientAddress, b.Amount, b.SmartContractAddress = "c", math.NewInt(57), "k"
						}
					})
				},
				"compass_id,smart_contract_address": func() []cand {
					return lnsCands(func(sep string, a, b *skywaytypes.MsgLightNodeSaleClaim) {
						a.SmartContractAddress, a.CompassId = "k"+sep+"y", "z"
						b.SmartContractAddress, b.CompassId = "k", "y"+sep+"z"
					})
				},
				"amount,client_address,compass_id,smart_contract_address": func() []cand {
					return lnsCands(func(sep string, a, b *skywaytypes.MsgLightNodeSaleClaim) {
						a.ClientAddress, a.Amount, a.SmartContractAddress, a.CompassId = "c"+sep+"5", math.NewInt(7), "k", "z"
						b.ClientAddress, b.Amount, b.SmartContractAddress, b.CompassId = "c", math.NewInt(5), "7", "k"+sep+"z"
						if sep == "" {
							a.ClientAddress, a.Amount, a.SmartContractAddress, a.CompassId = "c5", math.NewInt(7), "k", "z"
							b.ClientAddress, b.Amount, b.SmartContractAddress, b.CompassId = "c", math.NewInt(57), "", "kz"
						}
					})
				},
			},
			pair: claimPair,
		},
		{
			name: "MsgBatchSendToEthClaim", family: "C11",
			base: func() *item {
				return claimItem(&skywaytypes.MsgBatchSendToEthClaim{EventNonce: 7, EthBlockHeight: 19000000, BatchNonce: 9, TokenContract: addrA,
					ChainReferenceId: "eth-a", Orchestrator: accA, Metadata: meta(), SkywayNonce: 7})
			},
			alt:  withClaimCommon(map[string]any{"batch_nonce": uint64(10), "token_contract": addrB}),
			pair: claimPair,
		},
	}
}

// ---------------------------------------------------------------------------------------------
// C04: evidence.  `differs` is decided by the real libcons.VerifyEvidence: two validators with
// one share each submit the two proofs; they are pooled iff consensus (2 of 2) is reached.
// ---------------------------------------------------------------------------------------------

func proofDigest(it *item) ([]byte, error) {
	h, ok := it.obj.(evmtypes.Hashable)
	if !ok {
		return nil, fmt.Errorf("%T is not Hashable", it.obj)
	}
	return h.BytesToHash()
}

func wireAny(m any) (*codectypes.Any, error) {
	pm, ok := m.(interface {
		Reset()
		String() string
		ProtoMessage()
	})
	if !ok {
		return nil, fmt.Errorf("%T is not a proto message", m)
	}
	a, err := codectypes.NewAnyWithValue(pm)
	if err != nil {
		return nil, err
	}
	// as received over the wire: no cached value
	return &codectypes.Any{TypeUrl: a.TypeUrl, Value: a.Value}, nil
}

// proofPair: BytesToHash of both proofs, and the decision of the real libcons.VerifyEvidence.
func proofPair(a, b *item) (*pairResult, error) {
	da, err := proofDigest(a)
	if err != nil {
		return nil, err
	}
	db, err := proofDigest(b)
	if err != nil {
		return nil, err
	}
	apart, err := pooledByLibcons(a, b)
	if err != nil {
		return nil, fmt.Errorf("pooling: %w", err)
	}
	// pooled although the hash inputs differ (or the reverse) would be a broken harness
	if apart != !bytes.Equal(da, db) {
		return nil, fmt.Errorf("pooling decision (apart=%v) disagrees with the comparison of BytesToHash", apart)
	}
	return &pairResult{da: da, db: db, differs: apart}, nil
}

func pooledByLibcons(a, b *item) (bool, error) {
	v1, v2 := sdk.ValAddress(bytes.Repeat([]byte{1}, 20)), sdk.ValAddress(bytes.Repeat([]byte{2}, 20))
	snap := &valsettypes.Snapshot{
		Id:          1,
		TotalShares: math.NewInt(2),
		Validators: []valsettypes.Validator{
			{Address: v1, ShareCount: math.NewInt(1), State: valsettypes.ValidatorState_ACTIVE},
			{Address: v2, ShareCount: math.NewInt(1), State: valsettypes.ValidatorState_ACTIVE},
		},
	}
	cc := libcons.New(func(context.Context) (*valsettypes.Snapshot, error) { return snap, nil }, cdc)
	pa, err := wireAny(a.obj)
	if err != nil {
		return false, err
	}
	pb, err := wireAny(b.obj)
	if err != nil {
		return false, err
	}
	res, err := cc.VerifyEvidence(context.Background(), []libcons.Evidence{
		&consensustypes.Evidence{ValAddress: v1, Proof: pa},
		&consensustypes.Evidence{ValAddress: v2, Proof: pb},
	})
	if err == nil {
		if res == nil || res.Winner == nil {
			return false, errors.New("no winner without error")
		}
		return false, nil // pooled
	}
	if errors.Is(err, libcons.ErrConsensusNotAchieved) {
		return true, nil // kept apart
	}
	return false, err
}

func signedTx(nonce uint64, to string, data []byte) []byte {
	key, err := crypto.ToECDSA(crypto.Keccak256([]byte("verif-signbinding-tx")))
	if err != nil {
		panic(err)
	}
	toA := gethcommon.HexToAddress(to)
	tx := ethtypes.MustSignNewTx(key, ethtypes.LatestSignerForChainID(big.NewInt(1)), &ethtypes.DynamicFeeTx{
		ChainID: big.NewInt(1), Nonce: nonce, GasTipCap: big.NewInt(1e9), GasFeeCap: big.NewInt(3e10), Gas: 210000, To: &toA, Value: big.NewInt(0), Data: data,
	})
	bz, err := tx.MarshalBinary()
	if err != nil {
		panic(err)
	}
	return bz
}

func receiptBytes(status uint64, gas uint64) []byte {
	r := &ethtypes.Receipt{Type: ethtypes.DynamicFeeTxType, Status: status, CumulativeGasUsed: gas,
		Logs: []*ethtypes.Log{{Address: gethcommon.HexToAddress(addrF), Topics: []gethcommon.Hash{crypto.Keccak256Hash([]byte("LogicCallEvent(address,bytes,uint256,uint256)"))}, Data: []byte{1, 2, 3}}}}
	r.Bloom = ethtypes.CreateBloom(ethtypes.Receipts{r})
	bz, err := r.MarshalBinary()
	if err != nil {
		panic(err)
	}
	return bz
}

func txProof() *evmtypes.TxExecutedProof {
	return &evmtypes.TxExecutedProof{SerializedTX: signedTx(5, addrF, []byte{0xde, 0xad, 0xbe, 0xef}), SerializedReceipt: receiptBytes(1, 180000)}
}

func kindsC04raw() []*kindDef {
	mk := func(name string, base func() any, alt map[string]any, shift map[string]func() []cand) *kindDef {
		return &kindDef{name: name, family: "C04", base: func() *item { return claimItem(base()) }, alt: alt, shift: shift, pair: proofPair}
	}
	const hash = "0x5bd1e4b2e7c9c0e6b1f3a2d4c5b6a79881726354a0b1c2d3e4f5061728394a5b"
	return []*kindDef{
		mk("TxExecutedProof", func() any { return txProof() }, map[string]any{
			"serializedTX":      signedTx(6, addrF, []byte{0xde, 0xad, 0xbe, 0xef}),
			"serializedReceipt": receiptBytes(0, 180000),
		}, nil),
		mk("SmartContractExecutionErrorProof", func() any {
			return &evmtypes.SmartContractExecutionErrorProof{ErrorMessage: "execution reverted: deadline passed"}
		}, map[string]any{"errorMessage": "execution reverted: insufficient fee"}, nil),
		mk("ValidatorBalancesAttestationRes", func() any {
			return &evmtypes.ValidatorBalancesAttestationRes{BlockHeight: 19000000, Balances: []string{"1500000000000000000", "20000000000000000", "0"}}
		}, map[string]any{
			"blockHeight": uint64(19000001),
			"balances":    []string{"1500000000000000000", "20000000000000001", "0"},
		}, map[string]func() []cand{
			// element boundary inside the repeated field
			"balances": func() []cand {
				var cs []cand
				for _, sep := range seps {
					a := &evmtypes.ValidatorBalancesAttestationRes{BlockHeight: 19000000, Balances: []string{"1500000000000000000", "20000000000000000", "0"}}
					b := &evmtypes.ValidatorBalancesAttestationRes{BlockHeight: 19000000, Balances: []string{"1500000000000000000" + sep + "20000000000000000", "0"}}
					if sep == "" {
						b.Balances = []string{"15000000000000000002", "0000000000000000", "0"}
					}
					cs = append(cs, cand{claimItem(a), claimItem(b), fmt.Sprintf("(blockHeight=19000000, balances=%q) ~ (blockHeight=19000000, balances=%q)", a.Balances, b.Balances)})
				}
				return cs
			},
		}),
		mk("ReferenceBlockAttestationRes", func() any {
			return &evmtypes.ReferenceBlockAttestationRes{BlockHeight: 19000000, BlockHash: hash}
		}, map[string]any{
			"blockHeight": uint64(19000001),
			"blockHash":   "0x6cd1e4b2e7c9c0e6b1f3a2d4c5b6a79881726354a0b1c2d3e4f5061728394a5c",
		}, map[string]func() []cand{
			"blockHash,blockHeight": func() []cand {
				a := &evmtypes.ReferenceBlockAttestationRes{BlockHeight: 19000000, BlockHash: hash}
				b := &evmtypes.ReferenceBlockAttestationRes{BlockHeight: 190000000, BlockHash: hash[1:]}
				return []cand{{claimItem(a), claimItem(b), fmt.Sprintf("(blockHeight=19000000, blockHash=%q) ~ (blockHeight=190000000, blockHash=%q)", a.BlockHash, b.BlockHash)}}
			},
		}),
	}
}

// kindsC04 adds the path-cleaning / element-dropping value classes for the free-text fields of the proofs.
func kindsC04() []*kindDef {
	ks := kindsC04raw()
	pathModes := func(k *kindDef, f string, v string, set func(it *item, val string)) {
		if k.class == nil {
			k.class = map[string]map[string]func() []cand{}
		}
		h := len(v) / 2
		variants := map[string][][2]string{
			"dot":    {{v, "./" + v}, {v, v + "/."}, {v, v[:h] + "/./" + v[h:]}},
			"trail":  {{v, v + "/"}, {v, "/" + v}},
			"dotdot": {{v, "x/../" + v}, {v, v + "/x/.."}},
			"dslash": {{v[:h] + "/" + v[h:], v[:h] + "//" + v[h:]}},
		}
		for mode, pairs := range variants {
			pairs := pairs
			if k.class[mode] == nil {
				k.class[mode] = map[string]func() []cand{}
			}
			k.class[mode][f] = func() []cand {
				var cs []cand
				for _, p := range pairs {
					a, b := k.base(), k.base()
					set(a, p[0])
					set(b, p[1])
					cs = append(cs, cand{a, b, fmt.Sprintf("%s: %q ~ %q, all else equal", f, p[0], p[1])})
				}
				return cs
			}
		}
	}
	for _, k := range ks {
		switch k.name {
		case "SmartContractExecutionErrorProof":
			pathModes(k, "errorMessage", "execution reverted: deadline passed", func(it *item, v string) {
				it.obj.(*evmtypes.SmartContractExecutionErrorProof).ErrorMessage = v
			})
		case "ReferenceBlockAttestationRes":
			pathModes(k, "blockHash", "0x5bd1e4b2e7c9c0e6b1f3a2d4c5b6a79881726354a0b1c2d3e4f5061728394a5b", func(it *item, v string) {
				it.obj.(*evmtypes.ReferenceBlockAttestationRes).BlockHash = v
			})
		case "ValidatorBalancesAttestationRes":
			pathModes(k, "balances", "20000000000000000", func(it *item, v string) {
				it.obj.(*evmtypes.ValidatorBalancesAttestationRes).Balances[1] = v
			})
			k.class["empty"] = map[string]func() []cand{"balances": func() []cand {
				mk := func(x, y []string) cand {
					a, b := k.base(), k.base()
					a.obj.(*evmtypes.ValidatorBalancesAttestationRes).Balances = x
					b.obj.(*evmtypes.ValidatorBalancesAttestationRes).Balances = y
					return cand{a, b, fmt.Sprintf("balances=%q ~ balances=%q, all else equal", x, y)}
				}
				return []cand{
					mk([]string{"1500000000000000000", "", "7"}, []string{"1500000000000000000", "7"}),
					mk([]string{"", "7"}, []string{"7", ""}),
					mk([]string{"1500000000000000000", "7"}, []string{"", "1500000000000000000/7"}),
				}
			}}
		}
	}
	return ks
}

// crossPairs crafts, for two proof types, the pairs of proofs most likely to be pooled although their types differ:
// equal plain-joined hash input (the encoding before the type tag), and equal lists of parts (any encoding that
// delimits the parts but does not name the type).  Where nothing can be crafted the two base proofs are used.
func crossPairs(t1, t2 string) ([]cand, error) {
	key := t1 + "," + t2
	tx := txProof()
	txOnly := &evmtypes.TxExecutedProof{SerializedTX: tx.SerializedTX}
	errp := func(m string) *item { return claimItem(&evmtypes.SmartContractExecutionErrorProof{ErrorMessage: m}) }
	bal := func(h uint64, b ...string) *item {
		return claimItem(&evmtypes.ValidatorBalancesAttestationRes{BlockHeight: h, Balances: b})
	}
	ref := func(h uint64, hash string) *item {
		return claimItem(&evmtypes.ReferenceBlockAttestationRes{BlockHeight: h, BlockHash: hash})
	}
	switch key {
	case "SmartContractExecutionErrorProof,TxExecutedProof":
		return []cand{
			{errp(string(tx.SerializedTX) + string(tx.SerializedReceipt)), claimItem(tx),
				"SmartContractExecutionErrorProof{errorMessage = string(serializedTX ++ serializedReceipt)} ~ TxExecutedProof{serializedTX, serializedReceipt} (signed dynamic-fee tx nonce 5, receipt status 1)"},
			{errp(string(tx.SerializedTX)), claimItem(txOnly),
				"SmartContractExecutionErrorProof{errorMessage = string(serializedTX)} ~ TxExecutedProof{serializedTX, no receipt}"},
		}, nil
	case "SmartContractExecutionErrorProof,ValidatorBalancesAttestationRes":
		return []cand{
			{errp("19000000\n1500000000000000000\n0"), bal(19000000, "1500000000000000000", "0"),
				`SmartContractExecutionErrorProof{errorMessage="19000000\n1500000000000000000\n0"} ~ ValidatorBalancesAttestationRes{blockHeight=19000000, balances=["1500000000000000000","0"]}`},
			{errp("19000000"), bal(19000000),
				`SmartContractExecutionErrorProof{errorMessage="19000000"} ~ ValidatorBalancesAttestationRes{blockHeight=19000000, balances=[]}`},
		}, nil
	case "ReferenceBlockAttestationRes,SmartContractExecutionErrorProof":
		return []cand{
			{ref(19000000, "0x5bd1e4"), errp("190000000x5bd1e4"),
				`ReferenceBlockAttestationRes{blockHeight=19000000, blockHash="0x5bd1e4"} ~ SmartContractExecutionErrorProof{errorMessage="190000000x5bd1e4"}`},
			{ref(19000000, ""), errp("19000000"),
				`ReferenceBlockAttestationRes{blockHeight=19000000, blockHash=""} ~ SmartContractExecutionErrorProof{errorMessage="19000000"}`},
		}, nil
	case "ReferenceBlockAttestationRes,ValidatorBalancesAttestationRes":
		return []cand{
			{ref(19000000, "\n0x5bd1e4"), bal(19000000, "0x5bd1e4"),
				`ReferenceBlockAttestationRes{blockHeight=19000000, blockHash="\n0x5bd1e4"} ~ ValidatorBalancesAttestationRes{blockHeight=19000000, balances=["0x5bd1e4"]}`},
			{ref(19000000, "0x5bd1e4"), bal(19000000, "0x5bd1e4"),
				`ReferenceBlockAttestationRes{blockHeight=19000000, blockHash="0x5bd1e4"} ~ ValidatorBalancesAttestationRes{blockHeight=19000000, balances=["0x5bd1e4"]}`},
		}, nil
	case "TxExecutedProof,ValidatorBalancesAttestationRes":
		return []cand{{claimItem(tx), bal(19000000, "0"), "base proofs (no equal hash input can be crafted: RLP vs decimal digits)"}}, nil
	case "ReferenceBlockAttestationRes,TxExecutedProof":
		return []cand{{ref(19000000, "0x5bd1e4"), claimItem(tx), "base proofs (no equal hash input can be crafted: RLP vs decimal digits)"}}, nil
	}
	return nil, fmt.Errorf("no cross pair for %s", key)
}

// ---------------------------------------------------------------------------------------------

func allKinds() map[string]*kindDef {
	res := map[string]*kindDef{}
	ks := []*kindDef{kindSubmitLogicCall(), kindUpdateValset(), kindCompassHandover(), kindUploadUserSmartContract(), kindUploadSmartContract(), kindOutgoingTxBatch()}
	ks = append(ks, kindsC11()...)
	ks = append(ks, kindsC04()...)
	for _, k := range ks {
		res[k.name] = k
	}
	return res
}

// kindsSeen lists, by reflection, the item types that exist in the code for a family.
func kindsSeen(family string) []string {
	seen := map[string]bool{}
	switch family {
	case "C05":
		for _, w := range (*evmtypes.Message)(nil).XXX_OneofWrappers() {
			seen[strings.TrimPrefix(reflect.TypeOf(w).Elem().Name(), "Message_")] = true
		}
		for n := range implementors(reflect.TypeOf((*skywaytypes.EthereumSigned)(nil)).Elem()) {
			seen[n] = true
		}
	case "C11":
		for n := range implementors(reflect.TypeOf((*skywaytypes.EthereumClaim)(nil)).Elem()) {
			seen[n] = true
		}
	case "C04":
		for n := range implementors(reflect.TypeOf((*evmtypes.Hashable)(nil)).Elem()) {
			seen[n] = true
		}
	}
	return sortedKeys(seen)
}
