//go:build verif

// Driver for specs/ConsensusQueue.tla: the real x/consensus keeper + evm reference-block attester on E1.
package cqueue

import (
	"crypto/ecdsa"
	"encoding/json"
	"fmt"
	"hash/crc32"
	"os"
	"sort"
	"testing"
	"time"

	codectypes "github.com/cosmos/cosmos-sdk/codec/types"
	sdk "github.com/cosmos/cosmos-sdk/types"
	"github.com/ethereum/go-ethereum/common"
	"github.com/ethereum/go-ethereum/crypto"
	"github.com/palomachain/paloma/v2/x/consensus"
	consensuskeeper "github.com/palomachain/paloma/v2/x/consensus/keeper"
	cq "github.com/palomachain/paloma/v2/x/consensus/keeper/consensus"
	ctypes "github.com/palomachain/paloma/v2/x/consensus/types"
	evmkeeper "github.com/palomachain/paloma/v2/x/evm/keeper"
	evmtypes "github.com/palomachain/paloma/v2/x/evm/types"
	valsettypes "github.com/palomachain/paloma/v2/x/valset/types"
	"verifharness/drv"
	"verifharness/env"
)

const (
	chain   = "eth-a"
	chainB  = "eth-b" // second active chain: every validator registers a different key there
	refBase = 123     // reference block height the chain was added with (env.NewE1)
	abiJSON = `[{"inputs":[],"name":"foo","outputs":[],"stateMutability":"nonpayable","type":"function"}]`
)

var (
	refQueue = ctypes.Queue(evmkeeper.ConsensusGetReferenceBlock, "evm", chain)
	slcQueue = ctypes.Queue(evmtypes.ConsensusTurnstoneMessage, "evm", chain)
)

type args struct {
	Kind string `json:"kind"`
	V    int    `json:"v"`
	ID   int    `json:"id"`
	Mode string `json:"mode"`
	X    int    `json:"x"`
	E    int    `json:"e"`
	Dh   int    `json:"dh"`
	Snap bool   `json:"snap"` // ReRegister: rebuild the snapshot afterwards
	Same bool   `json:"same"` // Reassign: prefer the block time at which every message keeps its assignee
}

type world struct {
	e    *env.E1
	srv  ctypes.MsgServer
	mod  consensus.AppModule
	base int64
}

func newWorld() *world {
	// shares 5000000 : 3000001 : 1000002 : 1000000 (total 10000003): the last validator holds exactly
	// floor(total/10) shares and the total is not a multiple of 3 or 10 (boundary cases of the 2/3 and 10% rules)
	e := env.NewE1(env.E1Options{Seed: drv.Seed(), Chains: []string{chain, chainB}, PerChainKeys: true, Powers: []int64{5, 3, 1, 1}, ExtraStake: []int64{0, 1, 2, 0}})
	if os.Getenv("VERIF_CQ_NOLATE") == "" {
		e.AddLateValidator(e.Ctx, 2) // bonded, not in the snapshot
	}
	e.Consensus.LateInject(e.Evm) // as app.go does
	if err := e.Treasury.SetCommunityFundFee(e.Ctx, "0.01"); err != nil {
		panic(err)
	}
	if err := e.Treasury.SetSecurityFee(e.Ctx, "0.01"); err != nil {
		panic(err)
	}
	w := &world{e: e, srv: consensuskeeper.NewMsgServerImpl(*e.Consensus), base: 100000}
	w.mod = consensus.NewAppModule(e.Cdc, *e.Consensus, nil, nil)
	return w
}

type run struct {
	w      *world
	ctx    sdk.Context
	height int64
	keys   map[int][]*ecdsa.PrivateKey // per validator: history of registered eth keys (last = current)
	oldBts map[int][][]byte            // per message: bytes-to-sign versions seen so far
	kinds  map[int]string
}

func (r *run) setHeight(h int64) {
	r.height = h
	r.ctx = r.ctx.WithBlockHeight(r.w.base + h).WithBlockTime(time.Date(2024, 1, 1, 0, 0, 0, 0, time.UTC).Add(time.Duration(2*h) * time.Second))
}

// delegated: in this history the validators' relayers sign their transactions with a separate (fee-grantee) key, the set-up
// x/paloma's ante decorator admits: Creator is the validator's account, Signers names the delegate. Which histories run that
// way is a function of the history itself (stable under sampling and replay). Nothing the chain does may depend on it.
var delegated bool

func historyDelegated(h drv.History) bool {
	c := crc32.NewIEEE()
	for _, s := range h.Steps {
		c.Write([]byte(s.Act))
		c.Write(s.Args)
	}
	return c.Sum32()%2 == 1
}

// delegators: the accounts that sign through a delegate in a `delegated` history (every second validator, so that
// both kinds of submitters occur side by side)
var delegators = map[string]bool{}

func meta(a sdk.AccAddress) valsettypes.MsgMetadata {
	if delegated && delegators[a.String()] {
		d := sdk.AccAddress(crypto.Keccak256(append([]byte("verif-delegate-of-"), a...))[:20])
		return valsettypes.MsgMetadata{Creator: a.String(), Signers: []string{d.String()}}
	}
	return valsettypes.MsgMetadata{Creator: a.String(), Signers: []string{a.String()}}
}

func (r *run) queueOf(id int) string {
	if k := r.kinds[id]; k == "slc" || k == "uv" {
		return slcQueue
	}
	return refQueue
}

func (r *run) getMsg(id int) ctypes.QueuedSignedMessageI {
	for _, q := range []string{refQueue, slcQueue} {
		ms, err := r.w.e.Consensus.GetMessagesFromQueue(r.ctx, q, 0)
		if err != nil {
			panic(err)
		}
		for _, m := range ms {
			if int(m.GetId()) == id {
				return m
			}
		}
	}
	return nil
}

func ethSign(bz []byte, k *ecdsa.PrivateKey) []byte {
	sig, err := crypto.Sign(crypto.Keccak256(append([]byte(evmkeeper.SignaturePrefix), bz...)), k)
	if err != nil {
		panic(err)
	}
	return sig
}

func verify(bz, sig, addr []byte) bool {
	pk, err := crypto.Ecrecover(crypto.Keccak256(append([]byte(evmkeeper.SignaturePrefix), bz...)), sig)
	if err != nil {
		return false
	}
	p, err := crypto.UnmarshalPubkey(pk)
	if err != nil {
		return false
	}
	return crypto.PubkeyToAddress(*p) == common.BytesToAddress(addr)
}

func (r *run) valIdx(a sdk.ValAddress) int {
	for i, v := range r.w.e.Vals {
		if v.Val.Equals(a) {
			return i + 1
		}
	}
	return 0
}

func (r *run) observe() map[string]any {
	e := r.w.e
	o := map[string]any{}
	msgs := []any{}
	for _, q := range []string{refQueue, slcQueue} {
		ms, err := e.Consensus.GetMessagesFromQueue(r.ctx, q, 0)
		if err != nil {
			panic(err)
		}
		for _, m := range ms {
			id := int(m.GetId())
			if _, mine := r.kinds[id]; !mine {
				continue // queued by the chain itself (e.g. the valset update a snapshot rebuild publishes), not by this history
			}
			kind := r.kinds[id]
			ev := make([]int, len(e.Vals))
			for _, x := range m.GetEvidence() {
				vi := r.valIdx(x.ValAddress)
				var h evmtypes.Hashable
				if err := e.Cdc.UnpackAny(x.Proof, &h); err == nil {
					if rb, ok := h.(*evmtypes.ReferenceBlockAttestationRes); ok && vi > 0 {
						ev[vi-1] = int(rb.BlockHeight) - refBase
					}
				}
			}
			ests := make([]int, len(e.Vals))
			for _, x := range m.GetGasEstimates() {
				if vi := r.valIdx(x.ValAddress); vi > 0 {
					ests[vi-1] = int(x.Value)
				}
			}
			sigs := []any{}
			var bts []byte
			if kind != "ref" {
				bts, err = m.GetBytesToSign(e.Cdc)
				if err != nil {
					panic(err)
				}
				seen := false
				for _, b := range r.oldBts[id] {
					if string(b) == string(bts) {
						seen = true
					}
				}
				if !seen {
					r.oldBts[id] = append(r.oldBts[id], bts)
				}
			}
			for _, s := range m.GetSignData() {
				// valid = verifies against the current bytes under a key the validator registered FOR THIS CHAIN
				reg := false
				for _, k := range r.keys[r.valIdx(s.ValAddress)] {
					if crypto.PubkeyToAddress(k.PublicKey) == common.BytesToAddress(s.PublicKey) {
						reg = true
					}
				}
				sigs = append(sigs, map[string]any{"val": r.valIdx(s.ValAddress), "valid": reg && verify(bts, s.Signature, s.PublicKey), "reg": reg,
					"key": common.BytesToAddress(s.PublicKey).Hex()[2:10], "addrMatches": common.HexToAddress(s.ExternalAccountAddress) == common.BytesToAddress(s.PublicKey)})
			}
			fees := false
			if em, ok := mustEvm(e, m); ok {
				if slc := em.GetSubmitLogicCall(); slc != nil && slc.Fees != nil {
					fees = slc.Fees.RelayerFee != 0 || slc.Fees.CommunityFee != 0 || slc.Fees.SecurityFee != 0
				}
			}
			msgs = append(msgs, map[string]any{"id": id, "kind": kind, "ev": ev, "ests": ests, "sigs": sigs, "elected": int(m.GetGasEstimate()), "fees": fees,
				"pad": m.GetPublicAccessData() != nil, "err": m.GetErrorData() != nil, "added": int(m.GetAddedAtBlockHeight() - r.w.base), "nver": len(r.oldBts[id])})
		}
	}
	sort.Slice(msgs, func(i, j int) bool {
		return msgs[i].(map[string]any)["id"].(int) < msgs[j].(map[string]any)["id"].(int)
	})
	o["msgs"] = msgs
	ci, err := e.Evm.GetChainInfo(r.ctx, chain)
	if err != nil {
		panic(err)
	}
	o["refHeight"] = int(ci.ReferenceBlockHeight) - refBase
	jailed := []int{}
	for i, v := range e.Vals {
		val, err := e.Staking.GetValidator(r.ctx, v.Val)
		if err == nil && val.Jailed {
			jailed = append(jailed, i+1)
		}
	}
	o["jailed"] = jailed
	o["height"] = int(r.height)
	return o
}

func mustEvm(e *env.E1, m ctypes.QueuedSignedMessageI) (*evmtypes.Message, bool) {
	cm, err := m.ConsensusMsg(e.Cdc)
	if err != nil {
		return nil, false
	}
	em, ok := cm.(*evmtypes.Message)
	return em, ok
}

func (r *run) assignees() map[int]string {
	res := map[int]string{}
	ms, err := r.w.e.Consensus.GetMessagesFromQueue(r.ctx, slcQueue, 0)
	if err != nil {
		panic(err)
	}
	for _, m := range ms {
		if em, ok := mustEvm(r.w.e, m); ok {
			res[int(m.GetId())] = em.Assignee
		}
	}
	return res
}

func (r *run) curKey(v int) *ecdsa.PrivateKey {
	ks := r.keys[v]
	return ks[len(ks)-1]
}

func (r *run) step(s drv.Step) (string, map[string]any) {
	var a args
	if err := json.Unmarshal(s.Args, &a); err != nil {
		panic(err)
	}
	e := r.w.e
	extra := map[string]any{"id": 0, "err": ""}
	run := func(f func(ctx sdk.Context) error) string {
		err, _ := env.RunMsg(r.ctx, f)
		if err != nil {
			extra["err"] = err.Error()
			return "fail"
		}
		return "ok"
	}
	switch s.Act {
	case "Put":
		var id uint64
		res := run(func(ctx sdk.Context) error {
			var err error
			if a.Kind == "ref" {
				id, err = e.Consensus.PutMessageInQueue(ctx, refQueue, &evmtypes.ReferenceBlockAttestation{FromBlockTime: ctx.BlockTime().UTC()},
					&cq.PutOptions{RequireSignatures: false, PublicAccessData: []byte{1}})
			} else if a.Kind == "uv" {
				// a valset update the way x/evm publishes one: PublishValsetToChain for the current snapshot
				before := map[uint64]bool{}
				ms, _ := e.Consensus.GetMessagesFromQueue(ctx, slcQueue, 0)
				for _, m := range ms {
					before[m.GetId()] = true
				}
				snap, serr := e.Valset.GetCurrentSnapshot(ctx)
				if serr != nil {
					return serr
				}
				vs, verr := e.Evm.GetValsetByID(ctx, &evmtypes.QueryGetValsetByIDRequest{ValsetID: snap.Id, ChainReferenceID: chain})
				if verr != nil {
					return verr
				}
				ci, cerr := e.Evm.GetChainInfo(ctx, chain)
				if cerr != nil {
					return cerr
				}
				if err = e.Evm.PublishValsetToChain(ctx, *vs.Valset, ci); err != nil {
					return err
				}
				ms, _ = e.Consensus.GetMessagesFromQueue(ctx, slcQueue, 0)
				for _, m := range ms {
					if !before[m.GetId()] {
						id = m.GetId()
					}
				}
				if id == 0 {
					err = fmt.Errorf("valset update was not queued")
				}
			} else {
				id, err = e.Evm.AddSmartContractExecutionToConsensus(ctx, chain, e.CompassID[chain], &evmtypes.SubmitLogicCall{
					HexContractAddress: "0x00000000000000000000000000000000000000cc", Abi: []byte(abiJSON), Payload: common.FromHex("c2985578"),
					Deadline: ctx.BlockTime().Add(time.Hour).Unix(), SenderAddress: e.Vals[0].Acc.Bytes(), ContractAddress: nil,
				})
			}
			return err
		})
		extra["id"] = int(id)
		if res == "ok" {
			r.kinds[int(id)] = a.Kind
		}
		return res, extra
	case "Sign":
		v := e.Vals[a.V-1]
		m := r.getMsg(a.ID)
		var sig []byte
		signedBy := crypto.PubkeyToAddress(r.curKey(a.V).PublicKey).Hex()
		bts := make([]byte, 32)
		if m != nil && r.kinds[a.ID] != "ref" {
			b, err := m.GetBytesToSign(e.Cdc)
			if err != nil {
				panic(err)
			}
			bts = b
		}
		switch a.Mode {
		case "good":
			sig = ethSign(bts, r.curKey(a.V))
		case "stale":
			old := make([]byte, 32)
			old[0] = 7
			// an EARLIER version of the bytes that differs from the current one (a re-assignment can bring an old version back)
			for _, b := range r.oldBts[a.ID] {
				if string(b) != string(bts) {
					old = b
				}
			}
			sig = ethSign(old, r.curKey(a.V))
		case "otherchain": // the key this validator registered for ANOTHER chain, named as signer
			kb := e.KeyFor(v, chainB)
			signedBy = crypto.PubkeyToAddress(kb.PublicKey).Hex()
			sig = ethSign(bts, kb)
		case "oldkey": // the key this validator had registered BEFORE its last re-registration, named as signer
			k, _ := crypto.ToECDSA(crypto.Keccak256([]byte(fmt.Sprintf("verif-other-key-%d", a.V))))
			if ks := r.keys[a.V]; len(ks) > 1 {
				k = ks[len(ks)-2]
				signedBy = crypto.PubkeyToAddress(k.PublicKey).Hex()
			}
			sig = ethSign(bts, k)
		case "badkey":
			k, _ := crypto.ToECDSA(crypto.Keccak256([]byte(fmt.Sprintf("verif-other-key-%d", a.V))))
			sig = ethSign(bts, k)
		default:
			sig = make([]byte, 65)
			sig[3] = 9
		}
		res := run(func(ctx sdk.Context) error {
			_, err := r.w.srv.AddMessagesSignatures(ctx, &ctypes.MsgAddMessagesSignatures{Metadata: meta(v.Acc),
				SignedMessages: []*ctypes.ConsensusMessageSignature{{Id: uint64(a.ID), QueueTypeName: r.queueOf(a.ID), Signature: sig, SignedByAddress: signedBy}}})
			return err
		})
		// an accepted signature has to be under the key the validator has registered for this chain NOW (when it signed)
		extra["regNow"] = true
		if res == "ok" {
			if m2 := r.getMsg(a.ID); m2 != nil {
				for _, sd := range m2.GetSignData() {
					if r.valIdx(sd.ValAddress) == a.V && common.BytesToAddress(sd.PublicKey) != crypto.PubkeyToAddress(r.curKey(a.V).PublicKey) {
						extra["regNow"] = false
					}
				}
			}
		}
		return res, extra
	case "Estimate":
		v := e.Vals[a.V-1]
		return run(func(ctx sdk.Context) error {
			_, err := r.w.srv.AddMessageEstimates(ctx, &ctypes.MsgAddMessageGasEstimates{Metadata: meta(v.Acc),
				Estimates: []*ctypes.MsgAddMessageGasEstimates_GasEstimate{{MsgId: uint64(a.ID), QueueTypeName: r.queueOf(a.ID), Value: uint64(a.X)}}})
			return err
		}), extra
	case "Evidence":
		v := e.Vals[a.V-1]
		proof, err := codectypes.NewAnyWithValue(&evmtypes.ReferenceBlockAttestationRes{BlockHeight: uint64(refBase + a.E), BlockHash: fmt.Sprintf("0x%064x", a.E)})
		if err != nil {
			panic(err)
		}
		return run(func(ctx sdk.Context) error {
			_, err := r.w.srv.AddEvidence(ctx, &ctypes.MsgAddEvidence{Metadata: meta(v.Acc), Proof: proof, MessageID: uint64(a.ID), QueueTypeName: r.queueOf(a.ID)})
			return err
		}), extra
	case "SetPAD":
		v := e.Vals[a.V-1]
		return run(func(ctx sdk.Context) error {
			_, err := r.w.srv.SetPublicAccessData(ctx, &ctypes.MsgSetPublicAccessData{Metadata: meta(v.Acc), MessageID: uint64(a.ID), QueueTypeName: r.queueOf(a.ID), Data: []byte{0xab}, ValsetID: 1})
			return err
		}), extra
	case "SetErr":
		v := e.Vals[a.V-1]
		return run(func(ctx sdk.Context) error {
			_, err := r.w.srv.SetErrorData(ctx, &ctypes.MsgSetErrorData{Metadata: meta(v.Acc), MessageID: uint64(a.ID), QueueTypeName: r.queueOf(a.ID), Data: []byte{0xee}})
			return err
		}), extra
	case "ReRegister":
		v := e.Vals[a.V-1]
		k, _ := crypto.ToECDSA(crypto.Keccak256([]byte(fmt.Sprintf("verif-rereg-%d-%d-%d", drv.Seed(), a.V, len(r.keys[a.V])))))
		addr := crypto.PubkeyToAddress(k.PublicKey)
		res := run(func(ctx sdk.Context) error {
			kb := crypto.PubkeyToAddress(e.KeyFor(v, chainB).PublicKey) // the account on the other chain stays as it is
			return e.Valset.AddExternalChainInfo(ctx, v.Val, []*valsettypes.ExternalChainInfo{
				{ChainType: "evm", ChainReferenceID: chain, Address: addr.Hex(), Pubkey: addr.Bytes()},
				{ChainType: "evm", ChainReferenceID: chainB, Address: kb.Hex(), Pubkey: kb.Bytes()}})
		})
		if res == "ok" {
			r.keys[a.V] = append(r.keys[a.V], k)
			if a.Snap { // the snapshot is rebuilt: the assigner hands out the new address from now on
				if _, err := e.Valset.TriggerSnapshotBuild(r.ctx); err != nil {
					panic(err)
				}
			}
		}
		return res, extra
	case "Reassign":
		// ReassignOrphanedMessages picks the new relayer by block time; try a few time offsets and keep the first one
		// that really changes an assignee (it has no caller in the application, the keeper exports it)
		before := r.assignees()
		bt := r.ctx.BlockTime()
		done := false
		for k := 0; k < 5 && !done; k++ {
			cctx, write := r.ctx.WithBlockTime(bt.Add(time.Duration(k) * time.Second)).CacheContext()
			if err := e.Consensus.ReassignOrphanedMessages(cctx, -1); err != nil {
				extra["err"] = err.Error()
				return "fail", extra
			}
			saved := r.ctx
			r.ctx = cctx
			after := r.assignees()
			r.ctx = saved
			changed := false
			for id, a := range after {
				if before[id] != a {
					changed = true
				}
			}
			if a.Same { // prefer the outcome that keeps every assignee (whose remote address may have changed)
				changed = !changed
			}
			if changed || k == 4 {
				write()
				done = true
			}
		}
		return "ok", extra
	case "EndBlock":
		func() {
			defer func() {
				if rec := recover(); rec != nil {
					extra["err"] = fmt.Sprintf("panic: %v", rec)
				}
			}()
			if err := r.w.mod.EndBlock(r.ctx); err != nil {
				extra["err"] = err.Error()
			}
		}()
		return "eb", extra
	case "Advance":
		r.setHeight(r.height + int64(a.Dh))
		return "adv", extra
	}
	panic("unknown action " + s.Act)
}

func TestDriveCQueue(t *testing.T) {
	hs, err := drv.LoadHistories()
	if err != nil {
		t.Fatal(err)
	}
	em, err := drv.NewEmitter()
	if err != nil {
		t.Fatal(err)
	}
	defer em.Close()
	w := newWorld()
	for i, v := range w.e.Vals {
		if i%2 == 1 {
			delegators[v.Acc.String()] = true
		}
	}
	shares := []int{}
	snap, err := w.e.Valset.GetCurrentSnapshot(w.e.Ctx)
	if err != nil {
		t.Fatal(err)
	}
	for _, v := range w.e.Vals {
		sh := 0
		if sv, ok := snap.GetValidator(v.Val); ok {
			sh = int(sv.ShareCount.Int64())
		}
		shares = append(shares, sh)
	}
	for _, h := range hs {
		delegated = historyDelegated(h)
		cctx, _ := w.e.Ctx.CacheContext()
		r := &run{w: w, ctx: cctx, keys: map[int][]*ecdsa.PrivateKey{}, oldBts: map[int][][]byte{}, kinds: map[int]string{}}
		for i, v := range w.e.Vals {
			r.keys[i+1] = []*ecdsa.PrivateKey{v.EthKey}
		}
		r.setHeight(1)
		// message ids are global; remember the first id of this history so that the model's ids start at 1
		em.Emit(map[string]any{"h": h.H, "i": 0, "act": "Init", "obs": r.observe(), "shares": shares})
		for i, s := range h.Steps {
			res, extra := r.step(s)
			ev := map[string]any{"h": h.H, "i": i + 1, "act": s.Act, "args": json.RawMessage(s.Args), "res": res, "obs": r.observe()}
			for k, v := range extra {
				ev[k] = v
			}
			em.Emit(ev)
		}
	}
}
