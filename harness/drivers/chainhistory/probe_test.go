//go:build verif

package chainhistory

import (
	"testing"

	metrixtypes "github.com/palomachain/paloma/v2/x/metrix/types"
)

func TestProbeOK(t *testing.T) {
	w := newWorld(130)
	c := w.fork()
	defer c.close()
	vm, _ := c.e.App.MetrixKeeper.Validators(c.ctx(), &metrixtypes.Empty{})
	for _, m := range vm.ValMetrics {
		t.Logf("metrics %s sr=%s up=%s et=%s fs=%s", m.ValAddress[len(m.ValAddress)-6:], m.SuccessRate, m.Uptime, m.ExecutionTime, m.FeatureSet)
	}
	dump := func() {
		for _, ch := range chains {
			for _, m := range c.queueMsgs(turnstoneQueue(ch)) {
				em := c.evmMsg(m)
				t.Logf("   %s #%d %T v%d est=%d nSig=%d pad=%v err=%v nEv=%d", ch, m.GetId(), em.Action, c.valIdx(em.Assignee), m.GetGasEstimate(), len(m.GetSignData()), m.GetPublicAccessData() != nil, m.GetErrorData() != nil, len(m.GetEvidence()))
			}
		}
	}
	dump()
	for _, b := range [][]string{{"execjob", "deployuser"}, {"sign"}, {"estimate"}, {"sign"}, {"relayok"}, {"attestok"}, {}} {
		res, err := c.e.DeliverBlock(c.build(b))
		if err != nil {
			t.Fatal(err)
		}
		for i, r := range res.TxResults {
			if r.Code != 0 {
				t.Logf(" tx %d code %d %.200s", i, r.Code, r.Log)
			}
		}
		t.Logf("h%d %v", c.e.Height, b)
		dump()
	}
	cs, err := c.e.App.EvmKeeper.UserSmartContracts(c.ctx(), c.val(1).ValAddr.String())
	t.Logf("contracts %v %v", cs, err)
}
