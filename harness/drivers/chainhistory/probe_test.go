//go:build verif

package chainhistory

import (
	"testing"
	"time"

	evmtypes "github.com/palomachain/paloma/v2/x/evm/types"
)

func (c *chain) dumpQueues(t *testing.T) {
	for _, ch := range chains {
		for _, q := range []string{turnstoneQueue(ch), balancesQueue(ch), refblockQueue(ch)} {
			for _, m := range c.queueMsgs(q) {
				em := c.evmMsg(m)
				if em != nil {
					t.Logf("   %s #%d %T assignee v%d est=%d nEst=%d nSig=%d pad=%v err=%v nEv=%d", q, m.GetId(), em.Action, c.valIdx(em.Assignee), m.GetGasEstimate(), len(m.GetGasEstimates()), len(m.GetSignData()), m.GetPublicAccessData() != nil, m.GetErrorData() != nil, len(m.GetEvidence()))
				} else {
					t.Logf("   %s #%d nEv=%d", q, m.GetId(), len(m.GetEvidence()))
				}
			}
		}
	}
	bs, _ := c.e.App.SkywayKeeper.GetOutgoingTxBatches(c.ctx())
	for _, b := range bs {
		t.Logf("   batch %d est=%d txs=%d", b.BatchNonce, b.GasEstimate, len(b.Transactions))
	}
	ub, _ := c.e.App.SkywayKeeper.GetUnbatchedTransactions(c.ctx())
	t.Logf("   unbatched %d", len(ub))
	_ = evmtypes.ModuleName
}

func TestProbeWorld(t *testing.T) {
	t0 := time.Now()
	w := newWorld(envInt("VERIF_CH_BASE", 60))
	t.Logf("world at %d in %v hash %s", w.height, time.Since(t0), w.hash[:16])
	c := w.fork()
	defer c.close()
	c.dumpQueues(t)
	script := [][]string{
		{"createjob", "tfcreate", "uploaduser", "lnlicense", "status", "statusbad", "banksend", "send"},
		{"execjob", "tfmint", "deployuser", "lnregister", "delegate", "send", "deposit"},
		{"estimate", "lnauth", "lightsale"},
		{"sign", "cancel"},
		{"relayerr"},
		{"attesterr"},
		{"estimate", "sign"},
		{"relayok"},
		{"attestsplit"},
	}
	run := func(names []string) {
		var txs [][]byte
		var idx []string
		for _, n := range names {
			for _, tx := range c.tpl(n) {
				txs = append(txs, tx)
				idx = append(idx, n)
			}
		}
		res, err := c.e.DeliverBlock(txs)
		if err != nil {
			t.Fatalf("block %d: %v", c.e.Height+1, err)
		}
		for i, r := range res.TxResults {
			if r.Code != 0 {
				t.Logf(" h%d %s: code %d %s %.200s", c.e.Height, idx[i], r.Code, r.Codespace, r.Log)
			}
		}
		if len(names) > 0 {
			t.Logf("h%d %v: %d txs", c.e.Height, names, len(txs))
			c.dumpQueues(t)
		}
	}
	for _, s := range script {
		run(s)
	}
	for c.e.Height%50 != 0 {
		run(nil)
	}
	run([]string{"batchest"})
	run([]string{"confirm"})
	run([]string{"batchclaim"})
	for c.e.Height%300 != 0 {
		if _, err := c.e.DeliverBlock(nil); err != nil {
			t.Fatal(err)
		}
	}
	run([]string{"balances", "refblock"})
	run([]string{"keepalive"})
	vals, _ := c.e.App.StakingKeeper.GetBondedValidatorsByPower(c.ctx())
	t.Logf("bonded %d, total %v", len(vals), time.Since(t0))
}
