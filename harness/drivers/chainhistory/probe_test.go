//go:build verif

package chainhistory

import (
	"testing"

	evmtypes "github.com/palomachain/paloma/v2/x/evm/types"
)

func TestProbeFees(t *testing.T) {
	w := newWorld(280)
	c := w.fork()
	defer c.close()
	c.e.RunTo(287)
	for _, b := range stageScript["reportedpad"] {
		res, err := c.e.DeliverBlock(c.build(b))
		if err != nil {
			t.Fatal(err)
		}
		for i, r := range res.TxResults {
			if r.Code != 0 {
				t.Logf(" tx %d code %d %.200s", i, r.Code, r.Log)
			}
		}
		t.Logf("h%d %v", c.e.Height, b)
		for _, ch := range chains {
			for _, m := range c.queueMsgs(turnstoneQueue(ch)) {
				em := c.evmMsg(m)
				fees := "n/a"
				switch a := em.Action.(type) {
				case *evmtypes.Message_SubmitLogicCall:
					fees = a.SubmitLogicCall.Fees.String()
				case *evmtypes.Message_UploadUserSmartContract:
					fees = a.UploadUserSmartContract.Fees.String()
				}
				t.Logf("   %s #%d %T v%d est=%d nEst=%d nSig=%d pad=%v fees=%s", ch, m.GetId(), em.Action, c.valIdx(em.Assignee), m.GetGasEstimate(), len(m.GetGasEstimates()), len(m.GetSignData()), m.GetPublicAccessData() != nil, fees)
			}
		}
	}
}
