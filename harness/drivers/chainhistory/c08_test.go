//go:build verif

package chainhistory

// C08 driver: state transitions are a deterministic function of chain history.
//
// A history is  Init(scn, start) ; then Block(txs) steps interleaved with the perturbations
// Restart / Query(k) / SetEnv(x) / UnsetEnv(x) chosen by the spec.
//
// Sequential twins (never two live applications interleaved: util/eventbus keeps subscribers in package globals):
//   reference  a fork of the prepared world executes the blocks only (clean environment); the transactions are
//              built here, from the templates, against the reference state; after every block a digest of
//              app hash, every ExecTxResult (code, codespace, data, gas, events with attribute order) and the
//              FinalizeBlock events / validator updates is taken.  The raw transaction bytes are kept.
//   re-runs    the same raw blocks on R-1 more forks (Go re-randomises map iteration per range statement):
//              all digests must agree (the trace spec decides).
//   perturbed  the same raw blocks on another fork, with the perturbations of the history executed between the
//              blocks; in the thorough tier started >= 1.1 s of wall clock later.
// The driver records digests and what the probes returned; it has no opinion about them.

import (
	"bytes"
	"crypto/sha256"
	"encoding/binary"
	"encoding/hex"
	"encoding/json"
	"fmt"
	"os"
	"sort"
	"strings"
	"testing"
	"time"

	abci "github.com/cometbft/cometbft/abci/types"
	sdk "github.com/cosmos/cosmos-sdk/types"
	gogoproto "github.com/cosmos/gogoproto/proto"
	"github.com/palomachain/paloma/v2/util/libcons"
	consensustypes "github.com/palomachain/paloma/v2/x/consensus/types"
	evmtypes "github.com/palomachain/paloma/v2/x/evm/types"
	metrixtypes "github.com/palomachain/paloma/v2/x/metrix/types"
	skywaytypes "github.com/palomachain/paloma/v2/x/skyway/types"
	valsettypes "github.com/palomachain/paloma/v2/x/valset/types"
	"verifharness/drv"
)

type c08Args struct {
	Scn   int      `json:"scn"`
	World string   `json:"world"`
	Start int64    `json:"start"`
	Txs   []string `json:"txs"`
	Host  [][]string `json:"hostile"` // catalogue entries <<kind, parameter, class>> delivered in the block after the templates
	K     string   `json:"k"`
	X     string   `json:"x"`
}

// blockDigest: three parts so that a difference can be localised: state, transaction results, block level.
type blockDigest struct {
	App, Tx, Blk string
	txParts      []string // per transaction: digest of its result
	txCodes      []uint32
}

func (d blockDigest) String() string { return d.App + "." + d.Tx + "." + d.Blk }

func short(h []byte) string { return hex.EncodeToString(h)[:16] }

func writeEvents(w *bytes.Buffer, evs []abci.Event) {
	binary.Write(w, binary.BigEndian, uint32(len(evs)))
	for _, ev := range evs {
		fmt.Fprintf(w, "E%d:%s|", len(ev.Type), ev.Type)
		binary.Write(w, binary.BigEndian, uint32(len(ev.Attributes)))
		for _, a := range ev.Attributes {
			fmt.Fprintf(w, "%d:%s=%d:%s;%v|", len(a.Key), a.Key, len(a.Value), a.Value, a.Index)
		}
	}
}

func digestOf(appHash []byte, res *abci.ResponseFinalizeBlock) blockDigest {
	d := blockDigest{App: short(appHash)}
	all := sha256.New()
	for _, r := range res.TxResults {
		var b bytes.Buffer
		fmt.Fprintf(&b, "code=%d cs=%s gw=%d gu=%d data=%x|", r.Code, r.Codespace, r.GasWanted, r.GasUsed, r.Data)
		writeEvents(&b, r.Events)
		h := sha256.Sum256(b.Bytes())
		d.txParts = append(d.txParts, short(h[:]))
		d.txCodes = append(d.txCodes, r.Code)
		all.Write(h[:])
	}
	d.Tx = short(all.Sum(nil))
	var b bytes.Buffer
	writeEvents(&b, res.Events)
	for _, u := range res.ValidatorUpdates {
		fmt.Fprintf(&b, "vu %x %d|", u.PubKey.GetEd25519(), u.Power)
	}
	if res.ConsensusParamUpdates != nil {
		bz, _ := gogoproto.Marshal(res.ConsensusParamUpdates)
		fmt.Fprintf(&b, "cp %x|", bz)
	}
	fmt.Fprintf(&b, "apphash %x", res.AppHash)
	h := sha256.Sum256(b.Bytes())
	d.Blk = short(h[:])
	return d
}

// one executed block of the reference run
type refBlock struct {
	raw    [][]byte
	names  []string // template of every transaction
	digest blockDigest
	err    string
}

// runBlocks executes raw blocks on a fresh fork; pert[i] (if any) runs before block i (pert[len] after the last).
func (w *world) replay(start int64, blocks []refBlock, before func(c *chain, i int)) (out []blockDigest, errs []string) {
	c := w.fork()
	defer c.close()
	if err := c.e.RunTo(start); err != nil {
		return nil, []string{err.Error()}
	}
	for i := range blocks {
		if before != nil {
			before(c, i)
		}
		res, err := c.e.DeliverBlock(blocks[i].raw)
		if err != nil {
			errs = append(errs, shortStack(err.Error()))
			out = append(out, blockDigest{App: "abort", Tx: "abort", Blk: "abort"})
			return out, errs
		}
		errs = append(errs, "")
		out = append(out, digestOf(c.e.AppHash(), res))
	}
	if before != nil {
		before(c, len(blocks))
	}
	return out, errs
}

func diffKey(names []string, a, b blockDigest) string {
	var parts []string
	if a.App != b.App {
		parts = append(parts, "state")
	}
	if a.Blk != b.Blk {
		parts = append(parts, "block")
	}
	if a.Tx != b.Tx {
		if len(a.txParts) != len(b.txParts) {
			parts = append(parts, "tx:count")
		} else {
			seen := map[string]bool{}
			for i := range a.txParts {
				if a.txParts[i] != b.txParts[i] {
					k := "tx:" + names[i]
					if a.txCodes[i] != b.txCodes[i] {
						k += ":code"
					}
					if !seen[k] {
						seen[k] = true
						parts = append(parts, k)
					}
				}
			}
		}
	}
	sort.Strings(parts)
	return strings.Join(parts, ",")
}

func TestDriveTwins(t *testing.T) {
	hs, err := drv.LoadHistories()
	if err != nil {
		t.Fatal(err)
	}
	em, err := drv.NewEmitter()
	if err != nil {
		t.Fatal(err)
	}
	defer em.Close()
	t0 := time.Now()
	w := getWorld()
	reruns := int(envInt("VERIF_CH_RERUNS", 3))
	delayEvery := int(envInt("VERIF_CH_DELAY_EVERY", 0)) // every n-th history: the perturbed twin starts >= 1.1 s later
	cache := map[string]*refRun{}
	for n, h := range hs {
		runTwins(t, em, w, h, reruns, delayEvery > 0 && n%delayEvery == 0, cache)
	}
	t.Logf("%d histories in %v (%d forks)", len(hs), time.Since(t0), w.nfork)
}

type refRun struct {
	blocks []refBlock
	reruns [][]blockDigest
}

// reference executes the block script (template names per block) once, building the transactions, then re-runs the raw blocks.
func (w *world) reference(start int64, script [][]string, reruns int) *refRun {
	r := &refRun{}
	c := w.fork()
	must(c.e.RunTo(start))
	for _, names := range script {
		var b refBlock
		for _, n := range names {
			var txs [][]byte
			if strings.HasPrefix(n, "h|") {
				// a catalogue entry (kind|parameter|class)
				p := strings.SplitN(n, "|", 4)
				var err error
				if txs, err = c.hostile(p[1], p[2], p[3]); err != nil {
					panic(fmt.Sprintf("hostile entry %s: %v", n, err))
				}
			} else {
				txs = c.tpl(n)
			}
			for _, tx := range txs {
				b.raw = append(b.raw, tx)
				b.names = append(b.names, n)
			}
		}
		res, err := c.e.DeliverBlock(b.raw)
		if err != nil {
			b.err = shortStack(err.Error())
			b.digest = blockDigest{App: "abort", Tx: "abort", Blk: "abort"}
			r.blocks = append(r.blocks, b)
			break
		}
		b.digest = digestOf(c.e.AppHash(), res)
		r.blocks = append(r.blocks, b)
	}
	c.close()
	for k := 1; k < reruns; k++ {
		ds, _ := w.replay(start, r.blocks, nil)
		r.reruns = append(r.reruns, ds)
	}
	return r
}

func runTwins(t *testing.T, em *drv.Emitter, w *world, h drv.History, reruns int, delay bool, cache map[string]*refRun) {
	if len(h.Steps) < 2 || h.Steps[0].Act != "Init" {
		t.Fatalf("history %d: must start with Init", h.H)
	}
	var ia c08Args
	must(json.Unmarshal(h.Steps[0].Args, &ia))
	if ia.World == "" {
		ia.World = "std"
	}
	if ia.World != "std" {
		ww, stack := getWorldOf(ia.World)
		if ww == nil {
			t.Fatalf("history %d: world %s could not be prepared: %s", h.H, ia.World, shortStack(stack))
		}
		w = ww
	}
	if ia.Start < w.height {
		ia.Start = w.height
	}
	// the block script of the history
	var script [][]string
	steps := make([]c08Args, len(h.Steps))
	for i, st := range h.Steps {
		if len(st.Args) > 0 {
			must(json.Unmarshal(st.Args, &steps[i]))
		}
		if st.Act == "Block" {
			names := append([]string{}, steps[i].Txs...)
			for _, e := range steps[i].Host {
				if len(e) != 3 {
					t.Fatalf("history %d: hostile entry %v", h.H, e)
				}
				names = append(names, "h|"+strings.Join(e, "|"))
			}
			script = append(script, names)
		}
	}
	key, _ := json.Marshal([]any{ia.World, ia.Start, script})
	ref, ok := cache[string(key)]
	if !ok {
		ref = w.reference(ia.Start, script, reruns)
		cache[string(key)] = ref
	}
	// the perturbed twin: perturbations grouped by the index of the block they precede
	pertBefore := map[int][]int{}
	bi := 0
	for i, st := range h.Steps[1:] {
		if st.Act == "Block" {
			bi++
		} else {
			pertBefore[bi] = append(pertBefore[bi], i+1)
		}
	}
	if delay {
		time.Sleep(1100 * time.Millisecond)
	}
	// an anchored world: the reference (and its re-runs) ran before the boundary of the world, the perturbed twin runs after it
	clock := "n/a"
	if !w.boundary.IsZero() {
		clock = "straddled"
		if time.Now().After(w.boundary) {
			clock = "late" // the reference was not finished before the boundary: the twins do not straddle it
		} else {
			time.Sleep(time.Until(w.boundary) + 1500*time.Millisecond)
		}
	}
	savedEnv := map[string]*string{}
	setenv := func(k string, v *string) {
		if _, ok := savedEnv[k]; !ok {
			if old, had := os.LookupEnv(k); had {
				savedEnv[k] = &old
			} else {
				savedEnv[k] = nil
			}
		}
		if v == nil {
			os.Unsetenv(k)
		} else {
			os.Setenv(k, *v)
		}
	}
	pertEv := map[int]map[string]any{}
	nRestart := 0
	envSet := map[string]bool{}
	ffAt := map[int]bool{} // block index -> the feature-flag variable was set when the perturbed twin executed it
	pd, perr := w.replay(ia.Start, ref.blocks, func(c *chain, i int) {
		for _, si := range pertBefore[i] {
			st, a := h.Steps[si], steps[si]
			ev := map[string]any{"res": "ok", "hb": short(c.e.AppHash()), "stable": true, "n": 0, "log": ""}
			switch st.Act {
			case "Restart":
				ev["args"] = map[string]any{}
				if err := c.e.Restart(); err != nil {
					ev["res"], ev["log"] = "fail", firstLines(err.Error(), 300)
				}
				nRestart++
			case "SetEnv":
				ev["args"] = map[string]any{"x": a.X}
				one := "1"
				setenv(a.X, &one)
				envSet[a.X] = true
			case "UnsetEnv":
				ev["args"] = map[string]any{"x": a.X}
				setenv(a.X, nil)
				envSet[a.X] = false
			case "Query":
				ev["args"] = map[string]any{"k": a.K}
				stable, n, log := c.probe(a.K)
				ev["stable"], ev["n"], ev["log"] = stable, n, log
			default:
				panic("unknown step " + st.Act)
			}
			ev["ha"] = short(c.e.AppHash())
			ev["height"] = int(c.e.Height)
			pertEv[si] = ev
		}
		ffAt[i] = envSet[ffVar]
	})
	for k, v := range savedEnv {
		if v == nil {
			os.Unsetenv(k)
		} else {
			os.Setenv(k, *v)
		}
	}
	// emit
	em.Emit(map[string]any{"h": h.H, "i": 0, "act": "Init", "args": map[string]any{"scn": ia.Scn, "start": int(ia.Start), "world": ia.World}, "res": "ok",
		"whash": w.hash, "height": int(ia.Start), "delayed": delay, "reruns": reruns, "clock": clock})
	bi = 0
	for i, st := range h.Steps[1:] {
		si := i + 1
		if st.Act != "Block" {
			ev := pertEv[si]
			if ev == nil { // the perturbed twin aborted before reaching it
				ev = map[string]any{"res": "skipped", "hb": "", "ha": "", "stable": true, "n": 0, "log": "", "height": 0, "args": map[string]any{}}
				switch st.Act {
				case "SetEnv", "UnsetEnv":
					ev["args"] = map[string]any{"x": steps[si].X}
				case "Query":
					ev["args"] = map[string]any{"k": steps[si].K}
				}
			}
			ev["h"], ev["i"], ev["act"] = h.H, si, st.Act
			em.Emit(ev)
			continue
		}
		ev := map[string]any{"h": h.H, "i": si, "act": "Block", "args": map[string]any{"txs": steps[si].Txs, "hostile": hostOf(steps[si].Host)}, "res": "ok", "ntx": 0, "nok": 0,
			"dref": "none", "dpert": "none", "equal": false, "diff": "", "runs": []string{}, "agree": false, "log": "", "height": int(ia.Start) + bi + 1, "ff": ffAt[bi]}
		if bi < len(ref.blocks) {
			b := ref.blocks[bi]
			ev["dref"], ev["ntx"] = b.digest.String(), len(b.raw)
			nok := 0
			for _, cd := range b.digest.txCodes {
				if cd == 0 {
					nok++
				}
			}
			ev["nok"] = nok
			if b.err != "" {
				ev["res"], ev["log"] = "abort", b.err
			}
			runs := []string{}
			agree := true
			for _, rr := range ref.reruns {
				if bi < len(rr) {
					runs = append(runs, rr[bi].String())
					agree = agree && rr[bi].String() == b.digest.String()
				} else {
					runs = append(runs, "missing")
					agree = false
				}
			}
			ev["runs"], ev["agree"] = runs, agree
			if bi < len(pd) {
				ev["dpert"] = pd[bi].String()
				ev["equal"] = pd[bi].String() == b.digest.String()
				if pd[bi].String() != b.digest.String() {
					ev["diff"] = diffKey(b.names, b.digest, pd[bi])
					if perr[bi] != "" {
						ev["diff"], ev["log"] = "abort", perr[bi]
					}
				}
			} else {
				ev["dpert"], ev["diff"] = "missing", "missing"
			}
		} else {
			ev["res"] = "skipped"
		}
		bi++
		em.Emit(ev)
	}
}

// ---------------------------------------------------------------------------------------------
// read-only entry points and idempotence probes

const probeN = 5

// the evidence tally is evaluated much more often: with contentious evidence a result that depends on the iteration
// order of a two-entry map is the same 5 times in a row once in 16
const probeNEvidence = 64

func hostOf(h [][]string) [][]string {
	if h == nil {
		return [][]string{}
	}
	return h
}

func (c *chain) abciQuery(path string, req gogoproto.Message) []byte {
	bz, err := gogoproto.Marshal(req)
	must(err)
	res, err := c.e.App.Query(c.ctx(), &abci.RequestQuery{Path: path, Data: bz})
	if err != nil {
		return []byte("err:" + err.Error())
	}
	return append([]byte(fmt.Sprintf("%d:%s:", res.Code, res.Codespace)), res.Value...)
}

// probe evaluates the entry point `kind` probeN times on the frozen committed state (discarded cache contexts /
// the query path of the application) and says whether all answers were byte-identical.
func (c *chain) probe(kind string) (stable bool, n int, log string) {
	var first []byte
	stable = true
	times := probeN
	if kind == "evidence" {
		times = probeNEvidence
	}
	eval := func(f func() []byte) {
		for i := 0; i < times; i++ {
			out := func() (out []byte) {
				defer func() {
					if r := recover(); r != nil {
						out = []byte(fmt.Sprintf("panic: %v", r))
					}
				}()
				return f()
			}()
			if i == 0 {
				first = out
			} else if !bytes.Equal(first, out) {
				stable = false
				log = fmt.Sprintf("%s: evaluation %d differs from the first (%d vs %d bytes)", kind, i+1, len(out), len(first))
			}
			n++
		}
	}
	e := c.e
	cache := func() sdk.Context { cc, _ := c.ctx().CacheContext(); return cc }
	switch kind {
	case "pick":
		for _, ch := range chains {
			ch := ch
			eval(func() []byte {
				a, b, err := e.App.EvmKeeper.PickValidatorForMessage(cache(), ch, nil)
				return []byte(fmt.Sprintf("%s|%s|%v", a, b, err))
			})
			eval(func() []byte {
				a, b, err := e.App.EvmKeeper.PickValidatorForMessage(cache(), ch, &skywaytypes.VerifJobRequirements{EnforceMEVRelay: true})
				return []byte(fmt.Sprintf("%s|%s|%v", a, b, err))
			})
		}
	case "assign":
		// the write path through the assigner on a context that is thrown away
		eval(func() []byte {
			cc := cache()
			id, err := e.App.EvmKeeper.AddSmartContractExecutionToConsensus(cc, chainA, compassID(chainA), &evmtypes.SubmitLogicCall{
				HexContractAddress: "0x00000000000000000000000000000000000a11ce", Abi: []byte("[]"), Payload: []byte{0xde, 0xad}, Deadline: cc.BlockTime().Add(10 * time.Minute).Unix(),
				SenderAddress: c.user(0).Addr})
			if err != nil {
				return []byte("err:" + err.Error())
			}
			ms, _ := e.App.ConsensusKeeper.GetMessagesFromQueue(cc, turnstoneQueue(chainA), 0)
			for _, m := range ms {
				if m.GetId() == id {
					cm, _ := m.ConsensusMsg(e.App.AppCodec())
					return []byte(fmt.Sprintf("%d|%s", id, cm.(*evmtypes.Message).Assignee))
				}
			}
			return []byte(fmt.Sprintf("%d|?", id))
		})
	case "simulate":
		// gRPC Simulate of user transactions: runs the message handlers (relayer pick included) at height+1 on the
		// simulation state of the node
		seq0, seq1 := c.user(0).Seq, c.user(1).Seq
		txs := append(c.tpl("execjob"), c.tpl("send")...)
		c.user(0).Seq, c.user(1).Seq = seq0, seq1
		for _, tx := range txs {
			tx := tx
			eval(func() []byte {
				gi, res, err := e.App.Simulate(tx)
				if err != nil {
					return []byte("err:" + firstLines(err.Error(), 200))
				}
				var b bytes.Buffer
				fmt.Fprintf(&b, "%d|%x|", gi.GasUsed, res.Data)
				writeEvents(&b, res.Events)
				return b.Bytes()
			})
		}
	case "relay":
		for _, ch := range chains {
			q := turnstoneQueue(ch)
			for v := 0; v < c.nv(); v++ {
				va := c.val(v).ValAddr
				eval(func() []byte {
					var b bytes.Buffer
					b.Write(c.abciQuery("/palomachain.paloma.consensus.Query/QueuedMessagesForRelaying", &consensustypes.QueryQueuedMessagesForRelayingRequest{QueueTypeName: q, ValAddress: va}))
					b.Write(c.abciQuery("/palomachain.paloma.consensus.Query/QueuedMessagesForSigning", &consensustypes.QueryQueuedMessagesForSigningRequest{QueueTypeName: q, ValAddress: va}))
					b.Write(c.abciQuery("/palomachain.paloma.consensus.Query/QueuedMessagesForGasEstimation", &consensustypes.QueryQueuedMessagesForGasEstimationRequest{QueueTypeName: q, ValAddress: va}))
					b.Write(c.abciQuery("/palomachain.paloma.consensus.Query/QueuedMessagesForAttesting", &consensustypes.QueryQueuedMessagesForAttestingRequest{QueueTypeName: q, ValAddress: va}))
					return b.Bytes()
				})
			}
		}
	case "snapshot":
		eval(func() []byte {
			s, err := e.App.ValsetKeeper.GetCurrentSnapshot(cache())
			if err != nil || s == nil {
				return []byte(fmt.Sprintf("nil|%v", err))
			}
			bz, _ := gogoproto.Marshal(s)
			return bz
		})
		eval(func() []byte {
			var b bytes.Buffer
			b.Write(c.abciQuery("/palomachain.paloma.evm.Query/GetValsetByID", &evmtypes.QueryGetValsetByIDRequest{ValsetID: 0, ChainReferenceID: chainA}))
			b.Write(c.abciQuery("/palomachain.paloma.metrix.Query/Validators", &metrixtypes.Empty{}))
			b.Write(c.abciQuery("/palomachain.paloma.skyway.Query/OutgoingTxBatches", &skywaytypes.QueryOutgoingTxBatchesRequest{ChainReferenceId: chainA, Assignee: c.val(0).ValAddr.String()}))
			return b.Bytes()
		})
	case "snapbuild":
		eval(func() []byte {
			s, err := e.App.ValsetKeeper.TriggerSnapshotBuild(cache())
			if err != nil || s == nil {
				return []byte(fmt.Sprintf("nil|%v", err))
			}
			bz, _ := gogoproto.Marshal(s)
			return bz
		})
	case "evidence":
		cc := libcons.New(e.App.ValsetKeeper.GetCurrentSnapshot, e.App.AppCodec())
		for _, ch := range chains {
			for _, q := range []string{turnstoneQueue(ch), balancesQueue(ch), refblockQueue(ch)} {
				for _, m := range c.queueMsgs(q) {
					evs := m.GetEvidence()
					if len(evs) == 0 {
						continue
					}
					eval(func() []byte {
						var in []libcons.Evidence
						for _, ev := range evs {
							in = append(in, ev)
						}
						r, err := cc.VerifyEvidence(cache(), in)
						var b bytes.Buffer
						fmt.Fprintf(&b, "%v|", err)
						if r != nil {
							fmt.Fprintf(&b, "%s|%s|", r.TotalShares, r.TotalVotes)
							if pm, ok := r.Winner.(gogoproto.Message); ok && pm != nil {
								bz, _ := gogoproto.Marshal(pm)
								b.Write(bz)
							}
						}
						return b.Bytes()
					})
				}
			}
		}
	case "prunejail":
		// what the pruning of the consensus end blocker does with every reported (delivered, not yet attested) message, on a
		// discarded branch: who is jailed for not providing evidence
		times = 32
		for _, ch := range chains {
			q := turnstoneQueue(ch)
			for _, m := range c.queueMsgs(q) {
				if m.GetPublicAccessData() == nil && m.GetErrorData() == nil {
					continue
				}
				id := m.GetId()
				eval(func() []byte {
					cc := cache()
					err := e.App.ConsensusKeeper.PruneJob(cc, q, id)
					var b bytes.Buffer
					fmt.Fprintf(&b, "%v|", err)
					vals, _ := e.App.StakingKeeper.GetAllValidators(cc)
					for _, v := range vals {
						fmt.Fprintf(&b, "%s:%v|", v.GetOperator(), v.IsJailed())
					}
					return b.Bytes()
				})
			}
		}
	case "chaininfojail":
		// the sweep of the paloma end blocker (every 303 blocks) on a discarded branch: who is jailed and with which stored reason
		times = 16
		eval(func() []byte {
			cc := cache()
			err := e.App.PalomaKeeper.JailValidatorsWithMissingExternalChainInfos(cc)
			var b bytes.Buffer
			fmt.Fprintf(&b, "%v|", err)
			vals, _ := e.App.StakingKeeper.GetAllValidators(cc)
			for _, v := range vals {
				va, err := sdk.ValAddressFromBech32(v.GetOperator())
				if err != nil {
					continue
				}
				r, _ := e.App.ValsetKeeper.GetValidatorJailReason(cc, &valsettypes.QueryGetValidatorJailReasonRequest{ValAddress: va})
				fmt.Fprintf(&b, "%s:%v:%s|", v.GetOperator(), v.IsJailed(), r.GetReason())
			}
			return b.Bytes()
		})
	case "history":
		// read-only queries for an OLDER height (what `palomad q ... --height h` does): metrics, queues, snapshot
		for _, old := range []int64{c.w.height - 200, c.w.height} {
			old := old
			eval(func() []byte {
				var b bytes.Buffer
				for _, rq := range []struct {
					path string
					req  gogoproto.Message
				}{
					{"/palomachain.paloma.metrix.Query/Validators", &metrixtypes.Empty{}},
					{"/palomachain.paloma.consensus.Query/MessagesInQueue", &consensustypes.QueryMessagesInQueueRequest{QueueTypeName: turnstoneQueue(chainA)}},
					{"/palomachain.paloma.evm.Query/GetValsetByID", &evmtypes.QueryGetValsetByIDRequest{ValsetID: 0, ChainReferenceID: chainA}},
				} {
					bz, err := gogoproto.Marshal(rq.req)
					must(err)
					res, err := e.App.Query(c.ctx(), &abci.RequestQuery{Path: rq.path, Data: bz, Height: old})
					if err != nil {
						fmt.Fprintf(&b, "err:%v|", err)
						continue
					}
					fmt.Fprintf(&b, "%d:%s:%x|", res.Code, res.Codespace, res.Value)
				}
				return b.Bytes()
			})
		}
	case "uptime":
		eval(func() []byte {
			cc := cache()
			mk := e.App.MetrixKeeper
			(&mk).UpdateUptime(cc)
			r, err := mk.Validators(cc, &metrixtypes.Empty{})
			if err != nil {
				return []byte("err:" + err.Error())
			}
			bz, _ := gogoproto.Marshal(r)
			return bz
		})
	default:
		panic("unknown query kind " + kind)
	}
	return stable, n, log
}
