//go:build verif

package chainhistory

// The hostile catalogue of specs/ChainHistory.tla bound to real messages.
//
// Every message kind has a base message that is well formed in the current state of the chain it is
// built for (it names the pending consensus message, the live batch, the right nonce ...).  The parameters of
// a kind are the leaf fields of the base message found by reflection (path + type tag); a hostile class
// replaces one leaf by an extreme value.  The mutated message is serialised, for the class "empty" of
// big-number fields (math.Int / LegacyDec, non-nullable custom types) the field is removed from the wire
// bytes (what a hand-written client can send and the generated marshaller cannot), wrapped into a transaction
// body by hand and really signed.  TestDumpCatalogue prints the (kind, parameter, type) table from which the
// TLA+ catalogue (specs/ChainHistoryCatalogue.tla) is generated; the check compares the two.

import (
	"encoding/hex"
	"fmt"
	"math/big"
	"reflect"
	"sort"
	"strconv"
	"strings"
	"time"

	"cosmossdk.io/math"
	codectypes "github.com/cosmos/cosmos-sdk/codec/types"
	sdk "github.com/cosmos/cosmos-sdk/types"
	"github.com/cosmos/cosmos-sdk/types/bech32"
	txtypes "github.com/cosmos/cosmos-sdk/types/tx"
	"github.com/cosmos/cosmos-sdk/types/tx/signing"
	authtypes "github.com/cosmos/cosmos-sdk/x/auth/types"
	banktypes "github.com/cosmos/cosmos-sdk/x/bank/types"
	govtypes "github.com/cosmos/cosmos-sdk/x/gov/types"
	gogoproto "github.com/cosmos/gogoproto/proto"
	"github.com/ethereum/go-ethereum/crypto"
	consensustypes "github.com/palomachain/paloma/v2/x/consensus/types"
	evmtypes "github.com/palomachain/paloma/v2/x/evm/types"
	palomatypes "github.com/palomachain/paloma/v2/x/paloma/types"
	schedulertypes "github.com/palomachain/paloma/v2/x/scheduler/types"
	skywaytypes "github.com/palomachain/paloma/v2/x/skyway/types"
	tftypes "github.com/palomachain/paloma/v2/x/tokenfactory/types"
	treasurytypes "github.com/palomachain/paloma/v2/x/treasury/types"
	valsettypes "github.com/palomachain/paloma/v2/x/valset/types"
	"google.golang.org/protobuf/encoding/protowire"
	"verifharness/env"
)

// kindDef: who sends the message and how the well-formed base message is built. For validator kinds the
// builder gets the validator index; `all` kinds are sent by every validator with the same mutation (values
// that only matter once a quorum agrees on them).
type kindDef struct {
	name   string
	module string
	all    bool
	pick   func(c *chain) int // which validator sends a validator-signed kind (default 0)
	retag  map[string]string  // parameters whose type tag is not the one reflection gives (structured byte strings)
	signer func(c *chain, v int) *env.Account
	base   func(c *chain, v int) sdk.Msg
}

func byVal(c *chain, v int) *env.Account { return c.valAcc(v) }
func byUser(i int) func(c *chain, v int) *env.Account {
	return func(c *chain, v int) *env.Account { return c.user(i) }
}

func govAddr() string { return authtypes.NewModuleAddress(govtypes.ModuleName).String() }

// firstFor returns the first message of a queue offered to validator v by f (nil if none).
func firstOf(ms []consensustypes.QueuedSignedMessageI, err error) consensustypes.QueuedSignedMessageI {
	if err != nil || len(ms) == 0 {
		return nil
	}
	return ms[0]
}

func idOf(m consensustypes.QueuedSignedMessageI, def uint64) uint64 {
	if m == nil {
		return def
	}
	return m.GetId()
}

// anyMsg returns the oldest message of the turnstone queue of chain A (nil if empty).
func (c *chain) anyMsg() consensustypes.QueuedSignedMessageI {
	ms := c.queueMsgs(turnstoneQueue(chainA))
	if len(ms) == 0 {
		return nil
	}
	return ms[0]
}

func (c *chain) firstBatch() *skywaytypes.InternalOutgoingTxBatch {
	bs, _ := c.e.App.SkywayKeeper.GetOutgoingTxBatches(c.ctx())
	if len(bs) == 0 {
		return nil
	}
	sort.Slice(bs, func(i, j int) bool { return bs[i].BatchNonce < bs[j].BatchNonce })
	return &bs[0]
}

func (c *chain) nextNonce(v int) uint64 {
	n, _ := c.e.App.SkywayKeeper.GetLastSkywayNonceByValidator(c.ctx(), c.val(v).ValAddr, chainA)
	return n + 1
}

func errProof() *codectypes.Any {
	p, err := codectypes.NewAnyWithValue(&evmtypes.SmartContractExecutionErrorProof{ErrorMessage: "execution reverted"})
	must(err)
	return p
}

var kinds = []kindDef{
	// ---- valset -----------------------------------------------------------------------------------------
	{name: "KeepAlive", module: "valset", signer: byVal, base: func(c *chain, v int) sdk.Msg {
		return &valsettypes.MsgKeepAlive{Metadata: metaOf(c.valAcc(v)), PigeonVersion: "v2.4.0"}
	}},
	{name: "AddExternalChainInfoForValidator", module: "valset", signer: byVal, base: func(c *chain, v int) sdk.Msg {
		return &valsettypes.MsgAddExternalChainInfoForValidator{Metadata: metaOf(c.valAcc(v)), ChainInfos: []*valsettypes.ExternalChainInfo{
			{ChainType: "evm", ChainReferenceID: chainA, Address: c.w.ethAddr[v].Hex(), Pubkey: c.w.ethAddr[v].Bytes(), Balance: "1000000", Traits: []string{valsettypes.PIGEON_TRAIT_MEV}},
			{ChainType: "evm", ChainReferenceID: chainB, Address: c.w.ethAddr[v].Hex(), Pubkey: c.w.ethAddr[v].Bytes(), Balance: "1000000", Traits: []string{valsettypes.PIGEON_TRAIT_MEV}}}}
	}},
	// ---- treasury ---------------------------------------------------------------------------------------
	// the fee record of the validator that currently has to relay the oldest fee-paying message (validator 0 if
	// there is none), changed by that validator itself ...
	{name: "UpsertRelayerFee", module: "treasury", signer: byVal, pick: func(c *chain) int { return max(c.pendingAssignee(), 0) }, base: func(c *chain, v int) sdk.Msg {
		return &treasurytypes.MsgUpsertRelayerFee{Metadata: metaOf(c.valAcc(v)), FeeSetting: &treasurytypes.RelayerFeeSetting{ValAddress: c.val(v).ValAddr.String(),
			Fees: []treasurytypes.RelayerFeeSetting_FeeSetting{{ChainReferenceId: chainA, Multiplicator: dec("1.5")}, {ChainReferenceId: chainB, Multiplicator: dec("1.5")}}}}
	}},
	// ... and by somebody else (user 0): the message names the validator in a field
	{name: "UpsertRelayerFee/other", module: "treasury", signer: byUser(0), base: func(c *chain, v int) sdk.Msg {
		t := max(c.pendingAssignee(), 0)
		return &treasurytypes.MsgUpsertRelayerFee{Metadata: metaOf(c.user(0)), FeeSetting: &treasurytypes.RelayerFeeSetting{ValAddress: c.val(t).ValAddr.String(),
			Fees: []treasurytypes.RelayerFeeSetting_FeeSetting{{ChainReferenceId: chainA, Multiplicator: dec("1.5")}, {ChainReferenceId: chainB, Multiplicator: dec("1.5")}}}}
	}},
	// ---- paloma -----------------------------------------------------------------------------------------
	{name: "AddStatusUpdate", module: "paloma", signer: byVal, base: func(c *chain, v int) sdk.Msg {
		return &palomatypes.MsgAddStatusUpdate{Metadata: metaOf(c.valAcc(v)), Status: "relayed", Level: palomatypes.MsgAddStatusUpdate_LEVEL_INFO,
			Args: []palomatypes.MsgAddStatusUpdate_KeyValuePair{{Key: "k", Value: "v"}}}
	}},
	{name: "AddLightNodeClientLicense", module: "paloma", signer: byUser(3), base: func(c *chain, v int) sdk.Msg {
		return &palomatypes.MsgAddLightNodeClientLicense{Metadata: metaOf(c.user(3)), ClientAddress: c.lnClient().Bech32(), Amount: sdk.NewInt64Coin(env.BondDenom, 5000), VestingMonths: 12}
	}},
	{name: "RegisterLightNodeClient", module: "paloma", signer: func(c *chain, v int) *env.Account { return c.lnClient() }, base: func(c *chain, v int) sdk.Msg {
		return &palomatypes.MsgRegisterLightNodeClient{Metadata: metaOf(c.lnClient())}
	}},
	{name: "AuthLightNodeClient", module: "paloma", signer: func(c *chain, v int) *env.Account { return c.lnClient() }, base: func(c *chain, v int) sdk.Msg {
		return &palomatypes.MsgAuthLightNodeClient{Metadata: metaOf(c.lnClient())}
	}},
	{name: "SetLegacyLightNodeClients", module: "paloma", signer: byUser(0), base: func(c *chain, v int) sdk.Msg {
		return &palomatypes.MsgSetLegacyLightNodeClients{Metadata: metaOf(c.user(0))}
	}},
	{name: "PalomaUpdateParams", module: "paloma", signer: byUser(0), base: func(c *chain, v int) sdk.Msg {
		return &palomatypes.MsgUpdateParams{Metadata: metaOf(c.user(0)), Authority: govAddr(), Params: palomatypes.Params{GasExemptAddresses: []string{c.user(0).Bech32()}}}
	}},
	// ---- scheduler --------------------------------------------------------------------------------------
	{name: "CreateJob", module: "scheduler", signer: byUser(0), base: func(c *chain, v int) sdk.Msg {
		j := baseJob(fmt.Sprintf("hjob-h%d", c.e.Height+1))
		j.Permissions = schedulertypes.Permissions{Whitelist: []*schedulertypes.Runner{{ChainType: "evm", ChainReferenceID: chainA, Address: []byte{1, 2, 3}}},
			Blacklist: []*schedulertypes.Runner{{ChainType: "evm", ChainReferenceID: chainB, Address: []byte{4, 5, 6}}}}
		j.Triggers = []*schedulertypes.Trigger{{}}
		return &schedulertypes.MsgCreateJob{Metadata: metaOf(c.user(0)), Job: j}
	}},
	{name: "ExecuteJob", module: "scheduler", signer: byUser(0), base: func(c *chain, v int) sdk.Msg {
		return &schedulertypes.MsgExecuteJob{Metadata: metaOf(c.user(0)), JobID: c.latestJob(), Payload: []byte(`{"hexPayload":"c0ffee01"}`)}
	}},
	// ---- consensus --------------------------------------------------------------------------------------
	{name: "AddMessagesSignatures", module: "consensus", signer: byVal, base: func(c *chain, v int) sdk.Msg {
		q := turnstoneQueue(chainA)
		m := firstOf(c.e.App.ConsensusKeeper.GetMessagesForSigning(c.ctx(), q, c.val(v).ValAddr))
		if m == nil {
			m = c.anyMsg()
		}
		sig := make([]byte, 65)
		if m != nil {
			if b, err := m.GetBytesToSign(c.e.App.AppCodec()); err == nil {
				sig = c.ethSign(v, b)
			}
		}
		return &consensustypes.MsgAddMessagesSignatures{Metadata: metaOf(c.valAcc(v)), SignedMessages: []*consensustypes.ConsensusMessageSignature{
			{Id: idOf(m, 1), QueueTypeName: q, Signature: sig, SignedByAddress: c.w.ethAddr[v].Hex()}}}
	}},
	{name: "AddMessageEstimates", module: "consensus", signer: byVal, base: estimateBase},
	{name: "AddMessageEstimates/all", module: "consensus", all: true, signer: byVal, base: estimateBase},
	{name: "AddEvidence", module: "consensus", signer: byVal, base: evidenceBase},
	{name: "AddEvidence/all", module: "consensus", all: true, signer: byVal, base: evidenceBase},
	// proof of a remote transaction (does not match the queued message: the chain is expected to refuse it in the end
	// blocker once the quorum agrees on it)
	{name: "AddEvidenceTx/all", module: "consensus", all: true, signer: byVal, base: func(c *chain, v int) sdk.Msg {
		q := turnstoneQueue(chainA)
		m := firstOf(c.e.App.ConsensusKeeper.GetMessagesForAttesting(c.ctx(), q, c.val(v).ValAddr))
		if m == nil {
			m = c.anyMsg()
		}
		p, err := codectypes.NewAnyWithValue(txProof(c, 7))
		must(err)
		return &consensustypes.MsgAddEvidence{Metadata: metaOf(c.valAcc(v)), MessageID: idOf(m, 1), QueueTypeName: q, Proof: p}
	}},
	// proof of the remote transaction that DOES match the queued message (the one whose hash the relayer published), with the
	// receipt as a structured parameter (tag "receipt": no logs, logs without topics, foreign logs first, thousands of logs,
	// undecodable event data, failed status ...): for a user contract deployment, a logic call and a valset update
	{name: "AddEvidenceDeployOK/all", module: "consensus", all: true, signer: byVal, retag: receiptTag, base: okEvidenceBase("deploy")},
	{name: "AddEvidenceCallOK/all", module: "consensus", all: true, signer: byVal, retag: receiptTag, base: okEvidenceBase("call")},
	{name: "AddEvidenceValsetOK/all", module: "consensus", all: true, signer: byVal, retag: receiptTag, base: okEvidenceBase("valset")},
	{name: "AddEvidenceBalances/all", module: "consensus", all: true, signer: byVal, base: func(c *chain, v int) sdk.Msg {
		q := balancesQueue(chainA)
		m := firstOf(c.e.App.ConsensusKeeper.GetMessagesForAttesting(c.ctx(), q, c.val(v).ValAddr))
		p, err := codectypes.NewAnyWithValue(&evmtypes.ValidatorBalancesAttestationRes{BlockHeight: 5000, Balances: []string{"1000000000000000000", "1000000000000000000", "1000000000000000000", "1000000000000000000"}})
		must(err)
		return &consensustypes.MsgAddEvidence{Metadata: metaOf(c.valAcc(v)), MessageID: idOf(m, 1), QueueTypeName: q, Proof: p}
	}},
	{name: "SetPublicAccessData", module: "consensus", signer: byVal, pick: relayerOf, base: func(c *chain, v int) sdk.Msg {
		q := turnstoneQueue(chainA)
		m := firstOf(c.e.App.ConsensusKeeper.GetMessagesForRelaying(c.ctx(), q, c.val(v).ValAddr))
		if m == nil {
			m = c.anyMsg()
		}
		snapID := uint64(1)
		if s, err := c.e.App.ValsetKeeper.GetCurrentSnapshot(c.ctx()); err == nil && s != nil {
			snapID = s.Id
		}
		return &consensustypes.MsgSetPublicAccessData{Metadata: metaOf(c.valAcc(v)), MessageID: idOf(m, 1), QueueTypeName: q, Data: crypto.Keccak256([]byte("tx")), ValsetID: snapID}
	}},
	{name: "SetErrorData", module: "consensus", signer: byVal, pick: relayerOf, base: func(c *chain, v int) sdk.Msg {
		q := turnstoneQueue(chainA)
		m := firstOf(c.e.App.ConsensusKeeper.GetMessagesForRelaying(c.ctx(), q, c.val(v).ValAddr))
		if m == nil {
			m = c.anyMsg()
		}
		return &consensustypes.MsgSetErrorData{Metadata: metaOf(c.valAcc(v)), MessageID: idOf(m, 1), QueueTypeName: q, Data: []byte("execution reverted")}
	}},
	// ---- evm --------------------------------------------------------------------------------------------
	{name: "RemoveSmartContractDeployment", module: "evm", signer: byUser(0), base: func(c *chain, v int) sdk.Msg {
		return &evmtypes.MsgRemoveSmartContractDeploymentRequest{Metadata: metaOf(c.user(0)), SmartContractID: 1, ChainReferenceID: chainA}
	}},
	{name: "UploadUserSmartContract", module: "evm", signer: byVal, base: func(c *chain, v int) sdk.Msg {
		return &evmtypes.MsgUploadUserSmartContractRequest{Metadata: metaOf(c.valAcc(v)), Title: "verif", AbiJson: "[]", Bytecode: "0x6001600255", ConstructorInput: "0x01"}
	}},
	{name: "RemoveUserSmartContract", module: "evm", signer: byVal, base: func(c *chain, v int) sdk.Msg {
		return &evmtypes.MsgRemoveUserSmartContractRequest{Metadata: metaOf(c.valAcc(v)), Id: c.userContract(v)}
	}},
	{name: "DeployUserSmartContract", module: "evm", signer: byVal, base: func(c *chain, v int) sdk.Msg {
		return &evmtypes.MsgDeployUserSmartContractRequest{Metadata: metaOf(c.valAcc(v)), Id: c.userContract(v), TargetChain: chainA}
	}},
	{name: "ProposeNewSmartContractDeployment", module: "evm", signer: byUser(0), base: func(c *chain, v int) sdk.Msg {
		return &evmtypes.MsgDeployNewSmartContractProposalV2{Metadata: metaOf(c.user(0)), Authority: govAddr(), AbiJSON: "[]", BytecodeHex: "0x600160025500"}
	}},
	{name: "ProposeNewReferenceBlockAttestation", module: "evm", signer: byUser(0), base: func(c *chain, v int) sdk.Msg {
		return &evmtypes.MsgProposeNewReferenceBlockAttestation{Metadata: metaOf(c.user(0)), Authority: govAddr(), ChainReferenceId: chainA, BlockHeight: 2000, BlockHash: "0x" + hex.EncodeToString(crypto.Keccak256([]byte("b")))}
	}},
	// ---- skyway -----------------------------------------------------------------------------------------
	{name: "SendToRemote", module: "skyway", signer: byUser(1), base: func(c *chain, v int) sdk.Msg {
		return &skywaytypes.MsgSendToRemote{Metadata: metaOf(c.user(1)), EthDest: ethDest, Amount: sdk.NewInt64Coin(env.BondDenom, 1000), ChainReferenceId: chainA}
	}},
	{name: "CancelSendToRemote", module: "skyway", signer: byUser(1), base: func(c *chain, v int) sdk.Msg {
		id := uint64(1)
		if txs, err := c.e.App.SkywayKeeper.GetUnbatchedTransactions(c.ctx()); err == nil && len(txs) > 0 {
			id = txs[0].Id
		}
		return &skywaytypes.MsgCancelSendToRemote{Metadata: metaOf(c.user(1)), TransactionId: id}
	}},
	{name: "ConfirmBatch", module: "skyway", signer: byVal, base: func(c *chain, v int) sdk.Msg {
		m := &skywaytypes.MsgConfirmBatch{Metadata: metaOf(c.valAcc(v)), Nonce: 1, TokenContract: erc20A, EthSigner: c.w.ethAddr[v].Hex(), Orchestrator: c.valAcc(v).Bech32(), Signature: hex.EncodeToString(make([]byte, 65))}
		if b := c.firstBatch(); b != nil {
			m.Nonce, m.TokenContract = b.BatchNonce, b.TokenContract.GetAddress().Hex()
			if ci, err := c.e.App.EvmKeeper.GetChainInfo(c.ctx(), b.ChainReferenceID); err == nil {
				if cp, err := b.GetCheckpoint(string(ci.SmartContractUniqueID)); err == nil {
					if sig, err := skywaytypes.NewEthereumSignature(cp, c.w.ethKey[v]); err == nil {
						m.Signature = hex.EncodeToString(sig)
					}
				}
			}
		}
		return m
	}},
	{name: "EstimateBatchGas", module: "skyway", signer: byVal, base: batchEstimateBase},
	{name: "EstimateBatchGas/all", module: "skyway", all: true, signer: byVal, base: batchEstimateBase},
	{name: "SendToPalomaClaim/all", module: "skyway", all: true, signer: byVal, base: func(c *chain, v int) sdk.Msg {
		n := c.nextNonce(v)
		return &skywaytypes.MsgSendToPalomaClaim{Metadata: metaOf(c.valAcc(v)), EventNonce: n, EthBlockHeight: uint64(1000 + c.e.Height), TokenContract: erc20A, Amount: math.NewInt(500), EthereumSender: ethSrc,
			PalomaReceiver: c.user(2).Bech32(), Orchestrator: c.valAcc(v).Bech32(), ChainReferenceId: chainA, SkywayNonce: n, CompassId: compassID(chainA)}
	}},
	{name: "BatchSendToRemoteClaim/all", module: "skyway", all: true, signer: byVal, base: func(c *chain, v int) sdk.Msg {
		n := c.nextNonce(v)
		bn, tc := uint64(1), erc20A
		if b := c.firstBatch(); b != nil {
			bn, tc = b.BatchNonce, b.TokenContract.GetAddress().Hex()
		}
		return &skywaytypes.MsgBatchSendToRemoteClaim{Metadata: metaOf(c.valAcc(v)), EventNonce: n, EthBlockHeight: uint64(1000 + c.e.Height), BatchNonce: bn, TokenContract: tc, ChainReferenceId: chainA,
			Orchestrator: c.valAcc(v).Bech32(), SkywayNonce: n, CompassId: compassID(chainA)}
	}},
	{name: "LightNodeSaleClaim/all", module: "skyway", all: true, signer: byVal, base: func(c *chain, v int) sdk.Msg {
		n := c.nextNonce(v)
		return &skywaytypes.MsgLightNodeSaleClaim{Metadata: metaOf(c.valAcc(v)), EventNonce: n, EthBlockHeight: uint64(1000 + c.e.Height), Orchestrator: c.valAcc(v).Bech32(), ChainReferenceId: chainA, SkywayNonce: n,
			ClientAddress: c.user(3).Bech32(), Amount: math.NewInt(700), SmartContractAddress: saleAddr, CompassId: compassID(chainA)}
	}},
	{name: "SubmitBadSignatureEvidence", module: "skyway", signer: byUser(0), base: func(c *chain, v int) sdk.Msg {
		ext := skywaytypes.OutgoingTxBatch{BatchNonce: 77, BatchTimeout: 12345, TokenContract: erc20A, ChainReferenceId: chainA, Assignee: c.val(0).ValAddr.String(), AssigneeRemoteAddress: c.w.ethAddr[0].Bytes(), GasEstimate: 50000,
			Transactions: []skywaytypes.OutgoingTransferTx{{Id: 999, Sender: c.user(1).Bech32(), DestAddress: ethDest,
				Erc20Token: skywaytypes.ERC20Token{Contract: erc20A, Amount: math.NewInt(1), ChainReferenceId: chainA}, BridgeTaxAmount: math.ZeroInt()}}}
		sig := make([]byte, 65)
		if ib, err := ext.ToInternal(); err == nil {
			if cp, err := ib.GetCheckpoint(compassID(chainA)); err == nil {
				if s, err := skywaytypes.NewEthereumSignature(cp, c.w.ethKey[0]); err == nil {
					sig = s
				}
			}
		}
		subj, err := codectypes.NewAnyWithValue(&ext)
		must(err)
		return &skywaytypes.MsgSubmitBadSignatureEvidence{Metadata: metaOf(c.user(0)), Subject: subj, Signature: hex.EncodeToString(sig), ChainReferenceId: chainA}
	}},
	{name: "SkywayUpdateParams", module: "skyway", signer: byUser(0), base: func(c *chain, v int) sdk.Msg {
		return &skywaytypes.MsgUpdateParams{Metadata: metaOf(c.user(0)), Authority: govAddr(), Params: c.e.App.SkywayKeeper.GetParams(c.ctx())}
	}},
	{name: "SetERC20ToTokenDenom", module: "skyway", signer: byUser(0), base: func(c *chain, v int) sdk.Msg {
		return &skywaytypes.MsgSetERC20ToTokenDenom{Metadata: metaOf(c.user(0)), Denom: c.latestDenom(), ChainReferenceId: chainA, Erc20: "0x3333333333333333333333333333333333333333"}
	}},
	{name: "SetERC20MappingProposal", module: "skyway", signer: byUser(0), base: func(c *chain, v int) sdk.Msg {
		return &skywaytypes.MsgSetERC20MappingProposal{Metadata: metaOf(c.user(0)), Authority: govAddr(), Mappings: []skywaytypes.MsgSetERC20MappingProposal_ERC20ToDenomMapping{
			{ChainReferenceId: chainA, Erc20: "0x4444444444444444444444444444444444444444", Denom: "factory/x/y"}}}
	}},
	{name: "OverrideNonceProposal", module: "skyway", signer: byUser(0), base: func(c *chain, v int) sdk.Msg {
		return &skywaytypes.MsgNonceOverrideProposal{Metadata: metaOf(c.user(0)), ChainReferenceId: chainA, Nonce: 3}
	}},
	{name: "ReplenishLostGrainsProposal", module: "skyway", signer: byUser(0), base: func(c *chain, v int) sdk.Msg {
		return &skywaytypes.MsgReplenishLostGrainsProposal{Metadata: metaOf(c.user(0))}
	}},
	// ---- tokenfactory -----------------------------------------------------------------------------------
	{name: "CreateDenom", module: "tokenfactory", signer: byUser(0), base: func(c *chain, v int) sdk.Msg {
		return &tftypes.MsgCreateDenom{Metadata: metaOf(c.user(0)), Subdenom: fmt.Sprintf("h%d", c.e.Height+1)}
	}},
	{name: "Mint", module: "tokenfactory", signer: byUser(0), base: func(c *chain, v int) sdk.Msg {
		return &tftypes.MsgMint{Metadata: metaOf(c.user(0)), Amount: sdk.NewInt64Coin(c.latestDenom(), 100)}
	}},
	{name: "Burn", module: "tokenfactory", signer: byUser(0), base: func(c *chain, v int) sdk.Msg {
		return &tftypes.MsgBurn{Metadata: metaOf(c.user(0)), Amount: sdk.NewInt64Coin(c.latestDenom(), 1)}
	}},
	{name: "ChangeAdmin", module: "tokenfactory", signer: byUser(0), base: func(c *chain, v int) sdk.Msg {
		return &tftypes.MsgChangeAdmin{Metadata: metaOf(c.user(0)), Denom: c.latestDenom(), NewAdmin: c.user(1).Bech32()}
	}},
	{name: "SetDenomMetadata", module: "tokenfactory", signer: byUser(0), base: func(c *chain, v int) sdk.Msg {
		d := c.latestDenom()
		return &tftypes.MsgSetDenomMetadata{Metadata: metaOf(c.user(0)), DenomMetadata: banktypes.Metadata{Description: "d", Base: d, Display: d, Name: "N", Symbol: "S",
			DenomUnits: []*banktypes.DenomUnit{{Denom: d, Exponent: 0, Aliases: []string{"a"}}}}}
	}},
	{name: "TokenFactoryUpdateParams", module: "tokenfactory", signer: byUser(0), base: func(c *chain, v int) sdk.Msg {
		return &tftypes.MsgUpdateParams{Metadata: metaOf(c.user(0)), Authority: govAddr(), Params: tftypes.Params{DenomCreationFee: sdk.NewCoins(sdk.NewInt64Coin(env.BondDenom, 10_000_000))}}
	}},
}

// relayerOf: the validator that has something to relay on chain A (validator 0 otherwise)
func relayerOf(c *chain) int {
	for v := 0; v < c.nv(); v++ {
		if ms, err := c.e.App.ConsensusKeeper.GetMessagesForRelaying(c.ctx(), turnstoneQueue(chainA), c.val(v).ValAddr); err == nil && len(ms) > 0 {
			return v
		}
	}
	return 0
}

var receiptTag = map[string]string{"Proof>SerializedReceipt": "receipt"}

// okEvidenceBase: evidence for the oldest reported (public access data) message of the wanted action on either chain, carrying
// the transaction that matches it and the receipt the remote chain would produce.
func okEvidenceBase(want string) func(c *chain, v int) sdk.Msg {
	is := func(em *evmtypes.Message) bool {
		if em == nil {
			return false
		}
		switch em.Action.(type) {
		case *evmtypes.Message_UploadUserSmartContract:
			return want == "deploy"
		case *evmtypes.Message_SubmitLogicCall:
			return want == "call"
		case *evmtypes.Message_UpdateValset:
			return want == "valset"
		}
		return false
	}
	return func(c *chain, v int) sdk.Msg {
		var target consensustypes.QueuedSignedMessageI
		tch := chainA
		for pass := 0; pass < 2 && target == nil; pass++ {
			for _, ch := range chains {
				for _, m := range c.queueMsgs(turnstoneQueue(ch)) {
					if is(c.evmMsg(m)) && (pass == 1 || m.GetPublicAccessData() != nil) {
						target, tch = m, ch
						break
					}
				}
				if target != nil {
					break
				}
			}
		}
		q := turnstoneQueue(tch)
		proof := txProof(c, 7)
		if target != nil {
			vs := uint64(0)
			if pad := target.GetPublicAccessData(); pad != nil {
				vs = pad.GetValsetID()
			}
			if tx, err := c.matchingTx(target, tch, vs); err == nil {
				proof = okProof(tx, receiptBytes(c.evmMsg(target), "ok"))
			}
		} else {
			target = c.anyMsg()
		}
		p, err := codectypes.NewAnyWithValue(proof)
		must(err)
		return &consensustypes.MsgAddEvidence{Metadata: metaOf(c.valAcc(v)), MessageID: idOf(target, 1), QueueTypeName: q, Proof: p}
	}
}

func estimateBase(c *chain, v int) sdk.Msg {
	q := turnstoneQueue(chainA)
	m := firstOf(c.e.App.ConsensusKeeper.GetMessagesForGasEstimation(c.ctx(), q, c.val(v).ValAddr))
	if m == nil {
		m = c.anyMsg()
	}
	return &consensustypes.MsgAddMessageGasEstimates{Metadata: metaOf(c.valAcc(v)), Estimates: []*consensustypes.MsgAddMessageGasEstimates_GasEstimate{
		{MsgId: idOf(m, 1), QueueTypeName: q, Value: 21000, EstimatedByAddress: c.w.ethAddr[v].Hex()}}}
}

func evidenceBase(c *chain, v int) sdk.Msg {
	q := turnstoneQueue(chainA)
	m := firstOf(c.e.App.ConsensusKeeper.GetMessagesForAttesting(c.ctx(), q, c.val(v).ValAddr))
	if m == nil {
		m = c.anyMsg()
	}
	return &consensustypes.MsgAddEvidence{Metadata: metaOf(c.valAcc(v)), MessageID: idOf(m, 1), QueueTypeName: q, Proof: errProof()}
}

func batchEstimateBase(c *chain, v int) sdk.Msg {
	m := &skywaytypes.MsgEstimateBatchGas{Metadata: metaOf(c.valAcc(v)), Nonce: 1, TokenContract: erc20A, EthSigner: c.w.ethAddr[v].Hex(), Estimate: 50000}
	bs, _ := c.e.App.SkywayKeeper.GetOutgoingTxBatches(c.ctx())
	sort.Slice(bs, func(i, j int) bool { return bs[i].BatchNonce < bs[j].BatchNonce })
	for _, b := range bs {
		if b.GasEstimate == 0 {
			m.Nonce, m.TokenContract = b.BatchNonce, b.TokenContract.GetAddress().Hex()
			return m
		}
	}
	if len(bs) > 0 {
		m.Nonce, m.TokenContract = bs[0].BatchNonce, bs[0].TokenContract.GetAddress().Hex()
	}
	return m
}

func (c *chain) userContract(v int) uint64 {
	if cs, err := c.e.App.EvmKeeper.UserSmartContracts(c.ctx(), c.val(v).ValAddr.String()); err == nil && len(cs) > 0 {
		return cs[len(cs)-1].Id
	}
	return 1
}

func kindByName(n string) *kindDef {
	for i := range kinds {
		if kinds[i].name == n {
			return &kinds[i]
		}
	}
	return nil
}

// ---------------------------------------------------------------------------------------------
// leaves

type leaf struct {
	Path string `json:"p"`
	Tag  string `json:"t"`
	nums []protowire.Number // field numbers along the path (for wire-level removal); nil if the path crosses an Any
}

var (
	tInt  = reflect.TypeOf(math.Int{})
	tDec  = reflect.TypeOf(math.LegacyDec{})
	tTime = reflect.TypeOf(time.Time{})
	tAny  = reflect.TypeOf(&codectypes.Any{})
)

func fieldNum(f reflect.StructField) protowire.Number {
	tag := f.Tag.Get("protobuf")
	ps := strings.Split(tag, ",")
	if len(ps) < 2 {
		return 0
	}
	n, _ := strconv.Atoi(ps[1])
	return protowire.Number(n)
}

func walk(v reflect.Value, path string, nums []protowire.Number, out *[]leaf) {
	add := func(tag string) {
		*out = append(*out, leaf{Path: path, Tag: tag, nums: append([]protowire.Number{}, nums...)})
	}
	t := v.Type()
	switch {
	case t == tInt:
		add("int")
		return
	case t == tDec:
		add("dec")
		return
	case t == tTime:
		add("time")
		return
	case t == tAny:
		add("any")
		return
	}
	switch t.Kind() {
	case reflect.Ptr:
		add("ptr")
		if !v.IsNil() {
			walk(v.Elem(), path, nums, out)
		}
	case reflect.Struct:
		for i := 0; i < t.NumField(); i++ {
			f := t.Field(i)
			if strings.HasPrefix(f.Name, "XXX_") || f.PkgPath != "" {
				continue
			}
			p := f.Name
			if path != "" {
				p = path + "." + f.Name
			}
			fv := v.Field(i)
			n := append(append([]protowire.Number{}, nums...), fieldNum(f))
			if fv.Kind() == reflect.Ptr && fv.Type() != tAny && fv.Type().Elem().Kind() == reflect.Struct {
				// optional sub-message: the pointer itself is a parameter (absent), then its fields
				*out = append(*out, leaf{Path: p, Tag: "ptr", nums: n})
				if !fv.IsNil() {
					walk(fv.Elem(), p, n, out)
				}
				continue
			}
			walk(fv, p, n, out)
		}
	case reflect.Slice:
		if t.Elem().Kind() == reflect.Uint8 {
			add("bytes")
			return
		}
		add("list")
		if v.Len() > 0 {
			el := v.Index(0)
			if el.Kind() == reflect.Ptr {
				el = el.Elem()
			}
			walk(el, path+"[0]", nums, out)
		}
	case reflect.Interface:
		// oneof: the set member (a pointer to its wrapper struct)
		if !v.IsNil() {
			walk(v.Elem(), path, nums, out)
		}
	case reflect.String:
		add("str")
	case reflect.Uint64:
		add("u64")
	case reflect.Uint32:
		add("u32")
	case reflect.Int64:
		add("i64")
	case reflect.Int32:
		add("i32")
	case reflect.Bool:
		add("bool")
	default:
		panic(fmt.Sprintf("catalogue: unsupported field type %s at %s", t, path))
	}
}

// leavesOf lists the parameters of a message; the fields of an object packed into an Any are parameters too
// (path "Proof>Balances"): the harness packed it itself, so the cached value is at hand.
func leavesOf(m sdk.Msg) []leaf {
	var out []leaf
	walk(reflect.ValueOf(m).Elem(), "", nil, &out)
	for _, l := range append([]leaf{}, out...) {
		if l.Tag != "any" {
			continue
		}
		v, err := find(reflect.ValueOf(m), l.Path)
		if err != nil || v.IsNil() {
			continue
		}
		inner, ok := v.Interface().(*codectypes.Any).GetCachedValue().(gogoproto.Message)
		if !ok || inner == nil {
			continue
		}
		var in []leaf
		walk(reflect.ValueOf(inner).Elem(), "", nil, &in)
		for _, il := range in {
			il.Path = l.Path + ">" + il.Path
			out = append(out, il)
		}
	}
	return out
}

// leaves of a message of this kind, with the kind's own tags applied
func (k *kindDef) leaves(m sdk.Msg) []leaf {
	ls := leavesOf(m)
	for i := range ls {
		if t, ok := k.retag[ls[i].Path]; ok {
			ls[i].Tag = t
		}
	}
	return ls
}

// ClassesOf: the hostile classes of a type tag (must equal ClassesOf in specs/ChainHistory.tla).
var ClassesOf = map[string][]string{
	"str":   {"empty", "overlong", "malformed"},
	"bytes": {"empty", "overlong", "malformed"},
	"u64":   {"zero", "one", "huge63", "huge64"},
	"u32":   {"zero", "one", "huge64"},
	"i64":   {"negative", "zero", "one", "huge63"},
	"i32":   {"negative", "zero", "one", "huge63"},
	"int":   {"negative", "zero", "one", "huge63", "huge64", "huge255", "empty"},
	"dec":   {"negative", "zero", "one", "huge63", "huge64", "huge255", "empty"},
	"bool":  {"zero", "one"},
	"ptr":   {"empty"},
	"list":  {"empty", "overlong"},
	"any":   {"empty", "malformed"},
	"time":  {"zero", "huge63"},
	// a serialised transaction receipt
	"receipt": {"empty", "malformed", "failed", "nologs", "notopics", "foreignfirst", "manylogs", "baddata", "manytopics"},
}

func bigPow(n uint) *big.Int { return new(big.Int).Lsh(big.NewInt(1), n) }

// find resolves a leaf path on a message; returns the settable value.
func find(root reflect.Value, path string) (reflect.Value, error) {
	v := root
	for _, part := range strings.Split(path, ".") {
		idx := -1
		if i := strings.IndexByte(part, '['); i >= 0 {
			n, err := strconv.Atoi(part[i+1 : len(part)-1])
			if err != nil {
				return v, err
			}
			idx, part = n, part[:i]
		}
		for v.Kind() == reflect.Ptr || v.Kind() == reflect.Interface {
			if v.IsNil() {
				return v, fmt.Errorf("nil on the way to %s", path)
			}
			v = v.Elem()
		}
		v = v.FieldByName(part)
		if !v.IsValid() {
			return v, fmt.Errorf("no field %s in %s", part, path)
		}
		if idx >= 0 {
			if v.Len() <= idx {
				return v, fmt.Errorf("index %d out of range at %s", idx, path)
			}
			v = v.Index(idx)
		}
	}
	return v, nil
}

// looksBech32 / looksHex classify the base value of a string field (decides what "overlong" means).
func looksHexAddr(s string) bool { return len(s) == 42 && strings.HasPrefix(s, "0x") }
func looksBech32(s string) (string, bool) {
	for _, hrp := range []string{"palomavaloper", "paloma"} {
		if strings.HasPrefix(s, hrp+"1") {
			if _, _, err := decodeBech32(s); err == nil {
				return hrp, true
			}
		}
	}
	return "", false
}

func decodeBech32(s string) (string, []byte, error) { return bech32.DecodeAndConvert(s) }

func bech32Encode(hrp string, bz []byte) string {
	s, err := bech32.ConvertAndEncode(hrp, bz)
	must(err)
	return s
}

// mutate applies the class to the leaf; wire = true means the field has to be removed from the serialised bytes.
func mutate(m any, lf leaf, class string) (wire bool, err error) {
	v, err := find(reflect.ValueOf(m), lf.Path)
	if err != nil {
		return false, err
	}
	if lf.Tag == "ptr" {
		if class != "empty" {
			return false, fmt.Errorf("class %s for a pointer", class)
		}
		v.Set(reflect.Zero(v.Type()))
		return false, nil
	}
	switch lf.Tag {
	case "str":
		s := v.String()
		switch class {
		case "empty":
			v.SetString("")
		case "overlong":
			if hrp, ok := looksBech32(s); ok {
				v.SetString(bech32Encode(hrp, bytesOf(33, 0x5c))) // a 33-byte address
			} else if looksHexAddr(s) {
				v.SetString("0x" + hex.EncodeToString(bytesOf(33, 0xab)))
			} else {
				v.SetString(strings.Repeat("A", 70_000))
			}
		case "malformed":
			v.SetString("n0t/@n\u0000addr,ess\"'\\ ‮;--")
		default:
			return false, fmt.Errorf("class %s for str", class)
		}
	case "bytes":
		n := v.Len()
		switch class {
		case "empty":
			v.SetBytes([]byte{})
		case "overlong":
			if n <= 32 {
				v.SetBytes(bytesOf(33, 0xab))
			} else {
				v.SetBytes(bytesOf(1<<20, 0xab))
			}
		case "malformed":
			v.SetBytes([]byte{0xff, 0x00, 0xfe, 0x7b, 0x22, 0x00})
		default:
			return false, fmt.Errorf("class %s for bytes", class)
		}
	case "u64", "u32":
		max := uint64(1<<64 - 1)
		if lf.Tag == "u32" {
			max = 1<<32 - 1
		}
		switch class {
		case "zero":
			v.SetUint(0)
		case "one":
			v.SetUint(1)
		case "huge63":
			v.SetUint(1 << 63)
		case "huge64":
			v.SetUint(max)
		default:
			return false, fmt.Errorf("class %s for %s", class, lf.Tag)
		}
	case "i64", "i32":
		max := int64(1<<63 - 1)
		if lf.Tag == "i32" {
			max = 1<<31 - 1
		}
		switch class {
		case "negative":
			v.SetInt(-1)
		case "zero":
			v.SetInt(0)
		case "one":
			v.SetInt(1)
		case "huge63":
			v.SetInt(max)
		default:
			return false, fmt.Errorf("class %s for %s", class, lf.Tag)
		}
	case "bool":
		v.SetBool(class == "one")
	case "int", "dec":
		var b *big.Int
		switch class {
		case "negative":
			b = big.NewInt(-5)
		case "zero":
			b = big.NewInt(0)
		case "one":
			b = big.NewInt(1)
		case "huge63":
			b = bigPow(63)
		case "huge64":
			b = new(big.Int).Sub(bigPow(64), big.NewInt(1))
		case "huge255":
			b = bigPow(255)
		case "empty":
			return true, nil
		default:
			return false, fmt.Errorf("class %s for %s", class, lf.Tag)
		}
		if lf.Tag == "int" {
			v.Set(reflect.ValueOf(math.NewIntFromBigInt(b)))
		} else {
			v.Set(reflect.ValueOf(math.LegacyNewDecFromBigInt(b)))
		}
	case "list":
		switch class {
		case "empty":
			v.Set(reflect.MakeSlice(v.Type(), 0, 0))
		case "overlong":
			if v.Len() == 0 {
				return false, fmt.Errorf("overlong of an empty base list")
			}
			n := 3000
			s := reflect.MakeSlice(v.Type(), n, n)
			for i := 0; i < n; i++ {
				s.Index(i).Set(v.Index(0))
			}
			v.Set(s)
		default:
			return false, fmt.Errorf("class %s for list", class)
		}
	case "any":
		switch class {
		case "empty":
			v.Set(reflect.Zero(v.Type()))
		case "malformed":
			v.Set(reflect.ValueOf(&codectypes.Any{TypeUrl: "/palomachain.paloma.evm.NoSuchType", Value: []byte{0xff, 0x00, 0x01}}))
		default:
			return false, fmt.Errorf("class %s for any", class)
		}
	case "receipt":
		// shapes of the receipt of a user contract deployment (the attester that reads receipt logs); for the other kinds the
		// same logs are simply foreign to the message
		v.SetBytes(receiptBytes(&evmtypes.Message{Action: &evmtypes.Message_UploadUserSmartContract{}}, class))
	case "time":
		switch class {
		case "zero":
			v.Set(reflect.ValueOf(time.Time{}))
		case "huge63":
			v.Set(reflect.ValueOf(time.Unix(253402300799, 0).UTC()))
		default:
			return false, fmt.Errorf("class %s for time", class)
		}
	default:
		return false, fmt.Errorf("unknown tag %s", lf.Tag)
	}
	return false, nil
}

func bytesOf(n int, b byte) []byte {
	out := make([]byte, n)
	for i := range out {
		out[i] = b
	}
	return out
}

// removeField removes the field reached by the numbers `nums` from serialised message bytes (first occurrence
// at every level) and repairs the enclosing length prefixes.
func removeField(bz []byte, nums []protowire.Number) ([]byte, error) {
	if len(nums) == 0 {
		return nil, fmt.Errorf("empty field path")
	}
	var out []byte
	done := false
	for len(bz) > 0 {
		num, typ, n := protowire.ConsumeTag(bz)
		if n < 0 {
			return nil, protowire.ParseError(n)
		}
		m := protowire.ConsumeFieldValue(num, typ, bz[n:])
		if m < 0 {
			return nil, protowire.ParseError(m)
		}
		field := bz[:n+m]
		if !done && num == nums[0] {
			done = true
			if len(nums) > 1 {
				if typ != protowire.BytesType {
					return nil, fmt.Errorf("field %d is not a sub-message", num)
				}
				inner, k := protowire.ConsumeBytes(bz[n:])
				if k < 0 {
					return nil, protowire.ParseError(k)
				}
				sub, err := removeField(inner, nums[1:])
				if err != nil {
					return nil, err
				}
				out = protowire.AppendTag(out, num, typ)
				out = protowire.AppendBytes(out, sub)
			}
			// len(nums) == 1: dropped
		} else {
			out = append(out, field...)
		}
		bz = bz[n+m:]
	}
	if !done {
		return nil, fmt.Errorf("field %d not present on the wire", nums[0])
	}
	return out, nil
}

// signRaw builds and signs (SIGN_MODE_DIRECT) a transaction whose single message is given as type URL and raw bytes.
func (c *chain) signRaw(acc *env.Account, typeURL string, raw []byte) []byte {
	body := &txtypes.TxBody{Messages: []*codectypes.Any{{TypeUrl: typeURL, Value: raw}}}
	bodyBz, err := gogoproto.Marshal(body)
	must(err)
	pk, err := codectypes.NewAnyWithValue(acc.Priv.PubKey())
	must(err)
	ai := &txtypes.AuthInfo{
		SignerInfos: []*txtypes.SignerInfo{{PublicKey: pk, ModeInfo: &txtypes.ModeInfo{Sum: &txtypes.ModeInfo_Single_{Single: &txtypes.ModeInfo_Single{Mode: signing.SignMode_SIGN_MODE_DIRECT}}}, Sequence: acc.Seq}},
		Fee:         &txtypes.Fee{GasLimit: c.e.Opts.Gas},
	}
	aiBz, err := gogoproto.Marshal(ai)
	must(err)
	doc := &txtypes.SignDoc{BodyBytes: bodyBz, AuthInfoBytes: aiBz, ChainId: c.e.ChainID, AccountNumber: acc.Num}
	docBz, err := gogoproto.Marshal(doc)
	must(err)
	sig, err := acc.Priv.Sign(docBz)
	must(err)
	txBz, err := gogoproto.Marshal(&txtypes.TxRaw{BodyBytes: bodyBz, AuthInfoBytes: aiBz, Signatures: [][]byte{sig}})
	must(err)
	acc.Seq++
	return txBz
}

// hostile builds the transaction(s) of one catalogue entry on this chain. param "" / class "base" = the unmodified base message.
func (c *chain) hostile(kind, param, class string) (txs [][]byte, err error) {
	k := kindByName(kind)
	if k == nil {
		return nil, fmt.Errorf("unknown kind %s", kind)
	}
	vs := []int{0}
	if k.all {
		vs = []int{0, 1, 2, 3}
	} else if k.pick != nil {
		vs = []int{k.pick(c)}
	}
	for _, v := range vs {
		m := k.base(c, v)
		wire := false
		var lf leaf
		if class != "base" {
			found := false
			for _, l := range k.leaves(m) {
				if l.Path == param {
					lf, found = l, true
					break
				}
			}
			if !found {
				return nil, fmt.Errorf("kind %s has no parameter %s", kind, param)
			}
			ok := false
			for _, cl := range ClassesOf[lf.Tag] {
				ok = ok || cl == class
			}
			if !ok {
				return nil, fmt.Errorf("class %s does not apply to %s %s (%s)", class, kind, param, lf.Tag)
			}
			if i := strings.IndexByte(lf.Path, '>'); i >= 0 {
				// a field of the object packed into an Any: mutate a copy of the object, pack it again
				av, err := find(reflect.ValueOf(m), lf.Path[:i])
				if err != nil {
					return nil, err
				}
				a := av.Interface().(*codectypes.Any)
				inner, ok := a.GetCachedValue().(gogoproto.Message)
				if !ok {
					return nil, fmt.Errorf("no cached value in %s", lf.Path[:i])
				}
				// private copy (re-decoded: gogoproto.Clone cannot merge math.Int)
				cbz, err := gogoproto.Marshal(inner)
				if err != nil {
					return nil, err
				}
				inner = reflect.New(reflect.TypeOf(inner).Elem()).Interface().(gogoproto.Message)
				if err := gogoproto.Unmarshal(cbz, inner); err != nil {
					return nil, err
				}
				il := lf
				il.Path = lf.Path[i+1:]
				w, err := mutate(inner, il, class)
				if err != nil {
					return nil, err
				}
				ibz, err := gogoproto.Marshal(inner)
				if err != nil {
					return nil, err
				}
				if w {
					if ibz, err = removeField(ibz, il.nums); err != nil {
						return nil, fmt.Errorf("wire removal of %s: %w", lf.Path, err)
					}
				}
				av.Set(reflect.ValueOf(&codectypes.Any{TypeUrl: a.TypeUrl, Value: ibz}))
			} else if wire, err = mutate(m, lf, class); err != nil {
				return nil, err
			}
		}
		raw, err := gogoproto.Marshal(m)
		if err != nil {
			return nil, fmt.Errorf("marshal: %w", err)
		}
		if wire {
			if raw, err = removeField(raw, lf.nums); err != nil {
				return nil, fmt.Errorf("wire removal of %s: %w", lf.Path, err)
			}
		}
		txs = append(txs, c.signRaw(k.signer(c, v), "/"+gogoproto.MessageName(m), raw))
	}
	return txs, nil
}

// catalogueTable: kind -> sorted list of (parameter, tag), from the base messages built on chain c.
func catalogueTable(c *chain) map[string][]leaf {
	out := map[string][]leaf{}
	for _, k := range kinds {
		ls := k.leaves(k.base(c, 0))
		sort.Slice(ls, func(i, j int) bool { return ls[i].Path < ls[j].Path })
		out[k.name] = ls
	}
	return out
}
