//go:build verif

// Package chainhistory holds the drivers for specs/ChainHistory.tla (properties C08 and C09).
//
// world_test.go: the prepared world.  One full application (harness/env E2) is driven ONCE per process to a
// state where hostile values matter: two EVM chains supported and active, every validator with external
// accounts, keep-alives and relayer fees, valset snapshots built by the real end blocker, treasury fees,
// a bridged ERC-20, light node sale contract.  Every history runs on a Fork of that world (copy of the
// database, app.New on the copy); the prepared application itself is never driven again.
//
// What only governance can do on a live chain is done through the modules' own governance proposal
// handlers on the uncached context (E2.Setup); everything else is really signed transactions.
package chainhistory

import (
	"crypto/ecdsa"
	"encoding/hex"
	"encoding/json"
	"fmt"
	"os"
	"path/filepath"
	"strconv"
	"strings"
	"testing"
	"time"

	"cosmossdk.io/math"
	"github.com/cosmos/cosmos-sdk/codec"
	sdk "github.com/cosmos/cosmos-sdk/types"
	banktypes "github.com/cosmos/cosmos-sdk/x/bank/types"
	govv1beta1 "github.com/cosmos/cosmos-sdk/x/gov/types/v1beta1"
	stakingtypes "github.com/cosmos/cosmos-sdk/x/staking/types"
	"github.com/ethereum/go-ethereum/accounts/abi"
	"github.com/ethereum/go-ethereum/common"
	"github.com/ethereum/go-ethereum/crypto"
	"github.com/palomachain/paloma/v2/app"
	keeperutil "github.com/palomachain/paloma/v2/util/keeper"
	consensustypes "github.com/palomachain/paloma/v2/x/consensus/types"
	"github.com/palomachain/paloma/v2/x/evm"
	evmtypes "github.com/palomachain/paloma/v2/x/evm/types"
	skywaykeeper "github.com/palomachain/paloma/v2/x/skyway/keeper"
	skywaytypes "github.com/palomachain/paloma/v2/x/skyway/types"
	"github.com/palomachain/paloma/v2/x/treasury"
	treasurytypes "github.com/palomachain/paloma/v2/x/treasury/types"
	valsettypes "github.com/palomachain/paloma/v2/x/valset/types"
	"verifharness/drv"
	"verifharness/env"
)

const (
	chainA   = "eth-a"
	chainB   = "eth-b"
	erc20A   = "0x1111111111111111111111111111111111111111"
	saleAddr = "0x2222222222222222222222222222222222222222"
	ethDest  = "0x00000000000000000000000000000000000000aa"
	ethSrc   = "0x00000000000000000000000000000000000000bb"
	nUsers   = 4
	ffVar    = "PALOMA_FF_PIGEON_STATUS_UPDATE"
	sigPfx   = "\x19Ethereum Signed Message:\n32"
)

var chains = []string{chainA, chainB}

func compassID(c string) string { return "compass-" + c + "-1" }
func compassAddr(c string) string {
	if c == chainA {
		return "0x00000000000000000000000000000000000c0de1"
	}
	return "0x00000000000000000000000000000000000c0de2"
}

func turnstoneQueue(c string) string { return consensustypes.Queue("evm-turnstone-message", "evm", c) }
func balancesQueue(c string) string {
	return consensustypes.Queue("validators-balances", "evm", c)
}
func refblockQueue(c string) string { return consensustypes.Queue("reference-block", "evm", c) }

func must(err error) {
	if err != nil {
		panic(err)
	}
}

// worldKind: which genesis and which pigeons.
//   std   4 validators with equal power, every pigeon alive (the world of almost every history)
//   big   powers 50/40/30/30: validator 0 holds a third of the stake and its pigeon never runs (no keep-alive, no
//         external accounts, no duties): the jail sweeps find an inactive validator they may not jail
//   solo  one validator whose pigeon never runs: the last active validator
type worldKind struct {
	name   string
	powers []int64
	silent map[int]bool
	anchored bool
}

var worldKinds = map[string]worldKind{
	"std":  {name: "std", powers: []int64{10, 10, 10, 10}},
	"big":  {name: "big", powers: []int64{50, 40, 30, 30}, silent: map[int]bool{0: true}},
	"solo": {name: "solo", powers: []int64{10}, silent: map[int]bool{0: true}},
	// life: a validator life cycle and a long relay history. Validator 3 relays, withdraws its whole stake, is removed from staking
	// when the (shortened) unbonding period ends - its slashing signing info and its relay history stay -, more than a thousand
	// messages later the newest ones are attested, and validator 3 joins again
	"life": {name: "life", powers: []int64{10, 10, 10, 10}},
	// uneven: stakes 40/24/24/12: whom a sweep may jail depends on who was jailed before (25 % protection)
	"uneven": {name: "uneven", powers: []int64{40, 24, 24, 12}},
	// clock: the standard world with its genesis time anchored to the REAL clock so that the valset published on the chains turns
	// 30 days old (in wall-clock terms) about a minute after the world was built; the block time of the scenario stays minutes
	// after that publication. Code that measures ages with the process clock answers differently before and after that moment.
	"clock": {name: "clock", powers: []int64{10, 10, 10, 10}, anchored: true},
}

// how long after the start of its preparation an anchored world crosses its boundary
const clockLead = 60 * time.Second

// blockAbort is thrown when a block of the world preparation cannot be finalised (reported, never hidden).
type blockAbort struct{ err error }

func repoDir() string {
	if d := os.Getenv("VERIF_REPO"); d != "" {
		return d
	}
	return "/repo"
}

// the compass (bridge contract) ABI and a ContractDeployed event payload that ship with the repository
var (
	compassABIJSON      string
	compassABI          abi.ABI
	compassBytecode     []byte
	deployedEventData   []byte
	contractDeployedSig = crypto.Keccak256Hash([]byte("ContractDeployed(address,address,uint256)"))
)

func loadCompass() {
	if compassABIJSON != "" {
		return
	}
	b, err := os.ReadFile(filepath.Join(repoDir(), "x/evm/keeper/testdata/sample-abi.json"))
	must(err)
	// only the entries the histories use (the full ABI is 21 kB and the keeper JSON-encodes every chain info - with its ABI -
	// several times per block, which makes blocks five times slower without exercising anything else)
	var entries []map[string]any
	must(json.Unmarshal(b, &entries))
	var keep []map[string]any
	for _, en := range entries {
		switch en["name"] {
		case "submit_logic_call", "deploy_contract", "update_valset", "ContractDeployed":
			keep = append(keep, en)
		}
	}
	kb, err := json.Marshal(keep)
	must(err)
	compassABIJSON = string(kb)
	compassABI, err = abi.JSON(strings.NewReader(compassABIJSON))
	must(err)
	bc, err := os.ReadFile(filepath.Join(repoDir(), "x/evm/keeper/testdata/sample-bytecode.out"))
	must(err)
	compassBytecode = common.FromHex(strings.TrimSpace(string(bc)))
	ev, err := os.ReadFile(filepath.Join(repoDir(), "x/evm/keeper/testdata/deployed-contract-event.hex"))
	must(err)
	deployedEventData, err = hex.DecodeString(strings.TrimSpace(string(ev)))
	must(err)
}

// world is the prepared chain plus the external keys of the validators.
type world struct {
	kind    worldKind
	base    *env.E2
	ethKey  []*ecdsa.PrivateKey
	ethAddr []common.Address
	hash    string // app hash of the prepared world (must be the same in every process)
	height  int64
	nfork   int64
	// anchored worlds: the wall-clock moment at which the valset published on chain A becomes 30 days old
	boundary time.Time
	// C09: the world driven on to the block before a hostile transaction, per stage and height class
	prepared map[string]*preparedStage
}

type preparedStage struct {
	e     *env.E2
	res   string
	stack string
}

// chain is one continuation of the world.
type chain struct {
	w *world
	e *env.E2
}

func envInt(name string, def int64) int64 {
	if v := os.Getenv(name); v != "" {
		n, err := strconv.ParseInt(v, 10, 64)
		must(err)
		return n
	}
	return def
}

func metaOf(a *env.Account) valsettypes.MsgMetadata {
	return valsettypes.MsgMetadata{Creator: a.Bech32(), Signers: []string{a.Bech32()}}
}

// every application that is kept alive for the life of the process (prepared worlds and stages); closed by TestMain
var keepAlive []*env.E2

func closeAll() {
	for _, e := range keepAlive {
		e.Close()
	}
	keepAlive = nil
}

func TestMain(m *testing.M) {
	rc := m.Run()
	closeAll()
	os.Exit(rc)
}

// newWorld drives a fresh application of the standard kind to height `target` (>= 60); set-up errors panic.
func newWorld(target int64) *world {
	w, stack := newWorldOf(worldKinds["std"], target)
	if w == nil {
		panic("standard world: " + stack)
	}
	return w
}

// newWorldOf builds a world; when a block of the preparation aborts, the stack is returned instead of a world.
func newWorldOf(kind worldKind, target int64) (w *world, stack string) {
	defer func() {
		if r := recover(); r != nil {
			if ba, ok := r.(blockAbort); ok {
				w, stack = nil, ba.err.Error()
				return
			}
			panic(r)
		}
	}()
	loadCompass()
	var genTime time.Time
	if kind.anchored {
		// the snapshot that world preparation publishes is built by block 50 (250 s of chain time after genesis)
		genTime = time.Now().Add(-30*24*time.Hour - 250*time.Second + clockLead).UTC().Truncate(time.Second)
	}
	e := env.NewE2(env.E2Options{Seed: drv.Seed(), Powers: kind.powers, NumUsers: nUsers, GenTime: genTime,
		Genesis: func(cdc codec.Codec, gs app.GenesisState) {
			// the native denom carries bank metadata (definition of app.BankModule, as on the live chain)
			var want, bg banktypes.GenesisState
			cdc.MustUnmarshalJSON(app.BankModule{}.DefaultGenesis(cdc), &want)
			cdc.MustUnmarshalJSON(gs[banktypes.ModuleName], &bg)
			if len(bg.DenomMetadata) == 0 {
				bg.DenomMetadata = want.DenomMetadata
			}
			gs[banktypes.ModuleName] = cdc.MustMarshalJSON(&bg)
			if kind.name == "life" {
				// unbonding takes 100 s (20 blocks) instead of 21 days
				var sg stakingtypes.GenesisState
				cdc.MustUnmarshalJSON(gs[stakingtypes.ModuleName], &sg)
				sg.Params.UnbondingTime = 100 * time.Second
				gs[stakingtypes.ModuleName] = cdc.MustMarshalJSON(&sg)
			}
		}})
	keepAlive = append(keepAlive, e)
	w = &world{kind: kind, base: e, prepared: map[string]*preparedStage{}}
	for i := range kind.powers {
		k, err := crypto.ToECDSA(crypto.Keccak256([]byte(fmt.Sprintf("verif-chainhistory-eth-%d-%d", drv.Seed(), i))))
		must(err)
		w.ethKey = append(w.ethKey, k)
		w.ethAddr = append(w.ethAddr, crypto.PubkeyToAddress(k.PublicKey))
	}
	if _, err := e.DeliverBlock(nil); err != nil {
		panic(blockAbort{err})
	}
	// governance: chains, compass contract, fee manager, deployer, treasury fees, bridged token, sale contract
	must(e.Setup(func(ctx sdk.Context) error {
		evmGov := evm.NewReferenceChainReferenceIDProposalHandler(e.App.EvmKeeper)
		skyGov := skywaykeeper.NewSkywayProposalHandler(e.App.SkywayKeeper)
		trGov := treasury.NewFeeProposalHandler(e.App.TreasuryKeeper)
		props := []struct {
			h govv1beta1.Handler
			c govv1beta1.Content
		}{
			{evmGov, &evmtypes.AddChainProposal{Title: "t", Description: "d", ChainReferenceID: chainA, ChainID: 100, BlockHeight: 1000, BlockHashAtHeight: "0x1234", MinOnChainBalance: "1000"}},
			{evmGov, &evmtypes.AddChainProposal{Title: "t", Description: "d", ChainReferenceID: chainB, ChainID: 101, BlockHeight: 1000, BlockHashAtHeight: "0x1234", MinOnChainBalance: "1000"}},
			{trGov, &treasurytypes.CommunityFundFeeProposal{Title: "t", Description: "d", Fee: "0.01"}},
			{trGov, &treasurytypes.SecurityFeeProposal{Title: "t", Description: "d", Fee: "0.01"}},
		}
		for _, p := range props {
			if err := p.h(ctx, p.c); err != nil {
				return fmt.Errorf("%T: %w", p.c, err)
			}
		}
		// compass deployed and attested on both chains (what the attestation of the upload message does)
		k := e.App.EvmKeeper
		sc, err := k.SaveNewSmartContract(ctx, compassABIJSON, compassBytecode[:64]) // (the bytecode is only needed to deploy compass itself)
		if err != nil {
			return err
		}
		if err := k.SetAsCompassContract(ctx, sc); err != nil {
			return err
		}
		for _, c := range chains {
			if err := k.ActivateChainReferenceID(ctx, c, sc, compassAddr(c), []byte(compassID(c))); err != nil {
				return err
			}
		}
		props = props[:0]
		props = append(props, struct {
			h govv1beta1.Handler
			c govv1beta1.Content
		}{evmGov, &evmtypes.SetSmartContractDeployersProposal{Title: "t", Summary: "d", Deployers: []evmtypes.SetSmartContractDeployersProposal_Deployer{
			{ChainReferenceID: chainA, ContractAddress: "0x0000000000000000000000000000000000de9101"}, {ChainReferenceID: chainB, ContractAddress: "0x0000000000000000000000000000000000de9102"}}}})
		for _, c := range chains {
			props = append(props, struct {
				h govv1beta1.Handler
				c govv1beta1.Content
			}{evmGov, &evmtypes.SetFeeManagerAddressProposal{Title: "t", Summary: "d", ChainReferenceID: c, FeeManagerAddress: "0x00000000000000000000000000000000000fee00"}})
		}
		props = append(props, struct {
			h govv1beta1.Handler
			c govv1beta1.Content
		}{skyGov, &skywaytypes.SetERC20ToDenomProposal{Title: "t", Description: "d", ChainReferenceId: chainA, Erc20: erc20A, Denom: env.BondDenom}})
		props = append(props, struct {
			h govv1beta1.Handler
			c govv1beta1.Content
		}{skyGov, &skywaytypes.SetLightNodeSaleContractsProposal{Title: "t", Description: "d", LightNodeSaleContracts: []*skywaytypes.LightNodeSaleContract{
			{ChainReferenceId: chainA, ContractAddress: saleAddr}}}})
		for _, p := range props {
			if err := p.h(ctx, p.c); err != nil {
				return fmt.Errorf("%T: %w", p.c, err)
			}
		}
		return nil
	}))
	c := &chain{w: w, e: e}
	// every validator: external accounts on both chains, keep-alive, relayer fees
	c.mustBlock(c.tpl("extinfo"), c.tpl("keepalive"), c.tpl("fee"))
	// standing objects the templates refer to: a job, a user contract, a factory denom, a light node license
	// (the transfer is batched by the end blocker of height 50; the batch waits for gas estimates from then on)
	if len(kind.powers) >= 4 {
		c.mustBlock(c.tpl("createjob"), c.tpl("uploaduser"), c.tpl("tfcreate"), c.tpl("lnlicense"), c.tpl("send"))
		// the reference block request that the evm end blocker queues every 10 000 blocks (a height no history reaches) is
		// queued now by the keeper function that end blocker calls
		must(e.Setup(func(ctx sdk.Context) error {
			for _, ch := range chains {
				if err := e.App.EvmKeeper.ScheduleReferenceBlockForChain(ctx, ch); err != nil {
					return err
				}
			}
			return nil
		}))
	}
	if kind.name == "life" {
		c.lifeCycle()
	}
	if len(kind.powers) >= 4 && target > 70 {
		// the valset updates queued by the snapshot builds are relayed and attested (successfully) before the world is handed
		// out: a pending valset update holds back the gas estimation of every logic call / deployment behind it
		if err := e.RunTo(target - 6); err != nil {
			panic(blockAbort{err})
		}
		for _, b := range [][]string{{"sign"}, {"estimate"}, {"sign"}, {"relayok"}, {"attestok"}} {
			c.anyBlock(b...)
		}
	}
	if err := e.RunTo(target); err != nil {
		panic(blockAbort{err})
	}
	w.hash = hex.EncodeToString(e.AppHash())
	w.height = e.Height
	if kind.anchored {
		if s, err := e.App.ValsetKeeper.GetLatestSnapshotOnChain(e.Ctx(), chainA); err == nil && s != nil {
			w.boundary = s.CreatedAt.Add(30 * 24 * time.Hour)
		}
	}
	return w, ""
}

// fork starts an independent continuation of the prepared world.
func (w *world) fork() *chain {
	w.nfork++
	f, err := w.base.Fork(1)
	must(err)
	return &chain{w: w, e: f}
}

func (c *chain) close() { c.e.Close() }

// mustBlock delivers one block with all given transactions; every transaction must succeed (world preparation).
func (c *chain) mustBlock(txs ...[][]byte) {
	var all [][]byte
	for _, t := range txs {
		all = append(all, t...)
	}
	res, err := c.e.DeliverBlock(all)
	if err != nil {
		panic(blockAbort{err})
	}
	for i, r := range res.TxResults {
		if r.Code != 0 {
			panic(fmt.Sprintf("world preparation: tx %d failed: %s %d %s", i, r.Codespace, r.Code, r.Log))
		}
	}
}

// anyBlock delivers the templates in one block; transactions may fail, the block may not.
func (c *chain) anyBlock(names ...string) {
	var txs [][]byte
	for _, n := range names {
		txs = append(txs, c.tpl(n)...)
	}
	if _, err := c.e.DeliverBlock(txs); err != nil {
		panic(blockAbort{err})
	}
}

func (c *chain) nv() int                  { return len(c.e.Vals) }
func (c *chain) silent(v int) bool        { return c.w.kind.silent[v] }
func (c *chain) val(i int) *env.E2Val     { return &c.e.Vals[i] }
func (c *chain) user(i int) *env.Account  { return c.e.User(i) }
func (c *chain) ctx() sdk.Context         { return c.e.Ctx() }
func (c *chain) valAcc(i int) *env.Account { return c.e.Vals[i].Acc }

// valIdx finds the validator with that operator address (-1 if none).
func (c *chain) valIdx(valoper string) int {
	for i := range c.e.Vals {
		if c.e.Vals[i].ValAddr.String() == valoper {
			return i
		}
	}
	return -1
}

func dec(s string) math.LegacyDec { return math.LegacyMustNewDecFromStr(s) }

// lifeCycle: the history of the world "life" (heights 60 .. about 190)
func (c *chain) lifeCycle() {
	e := c.e
	run := func(h int64) {
		if err := e.RunTo(h); err != nil {
			panic(blockAbort{err})
		}
	}
	round := [][]string{{"sign"}, {"estimate"}, {"sign"}, {"relayerr"}, {"attesterr"}}
	run(60)
	// the valset updates of the first snapshots are relayed successfully
	for _, b := range [][]string{{"sign"}, {"estimate"}, {"sign"}, {"relayok"}, {"attestok"}} {
		c.anyBlock(b...)
	}
	// jobs are relayed (and fail remotely) until validator 3 has a relay history
	for i := 0; i < 10; i++ {
		if h, err := e.App.MetrixKeeper.GetValidatorHistory(c.ctx(), c.val(3).ValAddr); err == nil && h != nil && len(h.Records) > 0 {
			break
		}
		c.anyBlock("execjob")
		for _, b := range round {
			c.anyBlock(b...)
		}
	}
	// validator 3 leaves: whole stake withdrawn; the next snapshot (height = 0 mod 50) is built without it, the unbonding
	// period ends 20 blocks later and staking removes the validator
	c.anyBlock("unbondall")
	next := (e.Height/50 + 1) * 50
	if next < e.Height+25 {
		next += 50
	}
	run(next + 1)
	// more than a thousand messages later (the message id counter of the consensus module is advanced by 1100: this stands
	// for 1100 messages that were queued, handled and removed in the meantime - with them really in the queue every block
	// takes 0.4 s) ...
	must(e.Setup(func(ctx sdk.Context) error {
		ider := keeperutil.NewIDGenerator(e.App.ConsensusKeeper, nil)
		for i := 0; i < 1100; i++ {
			ider.IncrementNextID(ctx, "consensus-queue-counter-")
		}
		return nil
	}))
	// ... new jobs are relayed and attested
	c.anyBlock("execjob")
	for _, b := range round {
		c.anyBlock(b...)
	}
	run(e.Height + 12) // across two heights = 0 mod 10
	// validator 3 joins again
	c.anyBlock("rejoin")
	run(e.Height + 12)
}
