//go:build verif

package chainhistory

// Governance actions under a watchdog (C09.GovActionTerminates): the action runs in a goroutine; when it has not
// returned within the limit (or the heap explodes) the driver records where it is stuck and leaves the process
// (a goroutine cannot be stopped), so such a history must be the last one of its process.

import (
	"encoding/json"
	"fmt"
	"os"
	"runtime"
	"strings"
	"testing"
	"time"

	"github.com/palomachain/paloma/v2/x/evm"
	evmtypes "github.com/palomachain/paloma/v2/x/evm/types"
	"verifharness/drv"
)

type govArgs struct {
	Kind   string `json:"kind"`
	Chain  string `json:"chain"`
	Queued string `json:"queued"`
}

func stuckAt(needle string) string {
	buf := make([]byte, 8<<20)
	n := runtime.Stack(buf, true)
	for _, g := range strings.Split(string(buf[:n]), "\n\n") {
		if strings.Contains(g, needle) {
			return shortStack("stuck goroutine\n" + g)
		}
	}
	return ""
}

func TestGovAction(t *testing.T) {
	hs, err := drv.LoadHistories()
	if err != nil {
		t.Fatal(err)
	}
	em, err := drv.NewEmitter()
	if err != nil {
		t.Fatal(err)
	}
	defer em.Close()
	w := getWorld()
	limit := time.Duration(envInt("VERIF_CH_GOV_LIMIT_MS", 15000)) * time.Millisecond
	for _, h := range hs {
		var a govArgs
		must(json.Unmarshal(h.Steps[0].Args, &a))
		if h.Steps[0].Act != "GovAction" || (a.Kind != "RemoveChain" && a.Kind != "RemoveQueueDirect") {
			t.Fatalf("history %d: unknown governance action %s %s", h.H, h.Steps[0].Act, a.Kind)
		}
		c := w.fork()
		gov := evm.NewReferenceChainReferenceIDProposalHandler(c.e.App.EvmKeeper)
		target := a.Chain
		if a.Queued == "empty" {
			// a chain that was just added: its queues are empty
			target = "eth-new"
			must(gov(c.ctx(), &evmtypes.AddChainProposal{Title: "t", Description: "d", ChainReferenceID: target, ChainID: 777, BlockHeight: 1, BlockHashAtHeight: "0x01", MinOnChainBalance: "1"}))
		}
		nq := len(c.queueMsgs(turnstoneQueue(target)))
		ev := map[string]any{"h": h.H, "i": 0, "act": "GovAction", "args": map[string]any{"kind": a.Kind, "chain": a.Chain, "queued": a.Queued},
			"res": "ok", "nqueue": nq, "nafter": -1, "ms": 0, "stack": "", "whash": w.hash}
		done := make(chan error, 1)
		t0 := time.Now()
		go func() {
			defer func() {
				if r := recover(); r != nil {
					done <- fmt.Errorf("panic: %v", r)
				}
			}()
			if a.Kind == "RemoveQueueDirect" {
				// the keeper entry point RemoveSupportForChain means to use, called while the chain is still registered
				// (RemoveSupportForChain deletes the chain info first, after which the queue is no longer found)
				done <- c.e.App.ConsensusKeeper.RemoveConsensusQueue(c.ctx(), turnstoneQueue(target))
				return
			}
			done <- gov(c.ctx(), &evmtypes.RemoveChainProposal{Title: "t", Description: "d", ChainReferenceID: target})
		}()
		var ms runtime.MemStats
	wait:
		for {
			select {
			case err := <-done:
				ev["ms"] = int(time.Since(t0).Milliseconds())
				if err != nil {
					ev["res"], ev["stack"] = "error", firstLines(err.Error(), 300)
				}
				break wait
			case <-time.After(20 * time.Millisecond):
				runtime.ReadMemStats(&ms)
				if time.Since(t0) > limit || ms.HeapAlloc > 1500<<20 {
					ev["res"], ev["ms"] = "timeout", int(time.Since(t0).Milliseconds())
					ev["stack"] = stuckAt("RemoveQueueCompletely")
					em.Emit(ev)
					em.Close()
					c.close()
					closeAll()
					os.Exit(0) // the stuck goroutine cannot be stopped
				}
			}
		}
		// what is left of the queue: the queue is not listed while the chain is gone, so the chain is added again (new chain
		// id, same reference id) and the queue is read once more
		if a.Kind == "RemoveChain" && ev["res"] == "ok" {
			if err := gov(c.ctx(), &evmtypes.AddChainProposal{Title: "t", Description: "d", ChainReferenceID: target, ChainID: 778, BlockHeight: 1, BlockHashAtHeight: "0x01", MinOnChainBalance: "1"}); err == nil {
				ev["nafter"] = len(c.queueMsgs(turnstoneQueue(target)))
			}
		}
		if ev["res"] == "ok" {
			// the chain goes on
			for i := 0; i < 2; i++ {
				if _, err := c.e.DeliverBlock(c.dutyTxs()); err != nil {
					ev["res"], ev["stack"] = "abort", shortStack(err.Error())
					break
				}
			}
		}
		em.Emit(ev)
		c.close()
	}
}

