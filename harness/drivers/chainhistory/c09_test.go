//go:build verif

package chainhistory

// C09 driver: begin-/end-of-block processing never aborts.
//
// A history is  Init(stage, hclass) ; Hostile(kind, param, class) ; Run   or   Init ; Gate ; Run.
//   Init     forks the prepared world, delivers blocks up to the height class chosen by the spec and, in the
//            blocks right before it, the transactions that put the spec's "what is queued" stage in place;
//   Hostile  delivers the catalogue entry as really signed transaction(s) in the block of that height;
//   Run      lets the pigeons do their duty (sign / estimate / relay / attest / batch work, new jobs now and then)
//            block after block until the next heights = 0 mod 10, 50 (and 300 / 303 when they are within the
//            horizon) have been finalised;
//   Gate     completes an upgrade to a software version newer than the running one (what governance does).
// The driver records what happened: whether the transaction was accepted, whether FinalizeBlock / Commit
// returned an error or panicked (E2.DeliverBlock recovers and reports the stack).  No expectations here.

import (
	"context"
	"encoding/binary"
	"encoding/json"
	"fmt"
	"os"
	"strings"
	"testing"
	"time"

	upgradetypes "cosmossdk.io/x/upgrade/types"
	sdkversion "github.com/cosmos/cosmos-sdk/version"
	sdk "github.com/cosmos/cosmos-sdk/types"
	"github.com/cosmos/cosmos-sdk/types/module"
	"verifharness/drv"
)

type c09Args struct {
	Stage  string `json:"stage"`
	HClass string `json:"hclass"`
	Kind   string `json:"kind"`
	Param  string `json:"param"`
	Class  string `json:"class"`
	World  string `json:"world"`
	App    *verArg `json:"app"` // Gate: version of the running software
	Gov    *verArg `json:"gov"` // Gate: name of the upgrade governance completed
	Mode   string `json:"mode"`
	Span   string `json:"span"`
}

// verArg is a software version as the spec writes it: numeric components and an optional pre-release suffix
type verArg struct {
	V   []int  `json:"v"`
	Pre string `json:"pre"`
}

func (v *verArg) String() string {
	if v == nil || len(v.V) != 3 {
		return "v0.0.0"
	}
	return fmt.Sprintf("v%d.%d.%d%s", v.V[0], v.V[1], v.V[2], v.Pre)
}

func (v *verArg) json() map[string]any {
	if v == nil {
		return map[string]any{"v": []int{0, 0, 0}, "pre": ""}
	}
	return map[string]any{"v": v.V, "pre": v.Pre}
}

// hostile heights per class (world base 280): see specs/ChainHistory.tla HeightOf
var hostileHeight = map[string]int64{"m10": 290, "other": 293, "m300": 300, "m303": 303, "m50": 350}

const worldBase = 280

// stage scripts: the blocks right before the hostile block
var stageScript = map[string][][]string{
	"idle":    {},
	"fresh":   {{"execjob", "deployuser", "send"}},
	"signed":  {{"execjob", "deployuser", "send"}, {"sign"}},
	"elected": {{"execjob", "deployuser", "send"}, {"sign"}, {"estimate", "batchest"}, {"sign", "confirm"}},
	"relayed": {{"execjob", "deployuser", "send"}, {"sign"}, {"estimate", "batchest"}, {"sign", "confirm"}, {"relayerr"}},
	// a delivery report that nobody can attest: the relayer published an (unverifiable) transaction hash / an error
	"reportedpad": {{"execjob", "deployuser", "send"}, {"sign"}, {"estimate", "batchest"}, {"sign", "confirm"}, {"relayok"}},
	// contentious evidence: 2 validators against 1, the fourth silent
	"split": {{"execjob", "deployuser", "send"}, {"sign"}, {"estimate", "batchest"}, {"sign", "confirm"}, {"relayerr"}, {"attestsplit3"}},
	// the only evidence comes from a validator that is in no snapshot
	"newval": {{"newval", "execjob", "deployuser", "send"}, {"sign", "newvalalive"}, {"estimate", "batchest"}, {"sign", "confirm"}, {"relayerr"}, {"attestnew"}},
}

// duty: what the pigeons and users do in the block after height h
func duty(h int64) []string {
	d := []string{"sign", "estimate", "relayerr", "attesterr", "batchest", "confirm", "balances", "refblock"}
	switch h % 20 {
	case 1:
		d = append(d, "execjob", "send", "deployuser")
	case 11:
		d = append(d, "deposit", "batchclaim")
	}
	return d
}

// quiet: nothing waits in any consensus queue and no batch is open (then the pigeons have nothing to do)
func (c *chain) quiet() bool {
	for _, ch := range chains {
		for _, q := range []string{turnstoneQueue(ch), balancesQueue(ch), refblockQueue(ch)} {
			if len(c.queueMsgs(q)) > 0 {
				return false
			}
		}
	}
	bs, _ := c.e.App.SkywayKeeper.GetOutgoingTxBatches(c.ctx())
	return len(bs) == 0
}

// dutyTxs: the transactions of the duty block after the current height.
//   duty      every pigeon does everything;  noattest  the pigeons do everything except providing evidence and
//   (re-)reporting deliveries;  silent  nobody sends anything
func (c *chain) dutyTxs(mode ...string) [][]byte {
	m := "duty"
	if len(mode) > 0 && mode[0] != "" {
		m = mode[0]
	}
	if m == "silent" || c.nv() < 4 {
		return nil
	}
	names := duty(c.e.Height)
	if m == "noattest" {
		names = append([]string{"sign", "estimate", "batchest", "confirm"}, names[8:]...)
	} else if c.quiet() {
		names = names[8:] // only what users send
	}
	return c.build(names)
}

// reported: ids of the turnstone messages that carry a delivery report (public access data or error data)
func (c *chain) reported() map[string]bool {
	out := map[string]bool{}
	for _, ch := range chains {
		for _, m := range c.queueMsgs(turnstoneQueue(ch)) {
			if m.GetPublicAccessData() != nil || m.GetErrorData() != nil {
				out[fmt.Sprintf("%s/%d", ch, m.GetId())] = true
			}
		}
	}
	return out
}

// validator census: bonded validators that are jailed / that are unjailed although their pigeon is not alive
func (c *chain) census() (jailed, lapsed int) {
	ctx := c.ctx()
	vals, err := c.e.App.StakingKeeper.GetAllValidators(ctx)
	if err != nil {
		return -1, -1
	}
	for _, v := range vals {
		va, err := sdk.ValAddressFromBech32(v.GetOperator())
		if err != nil {
			continue
		}
		if v.IsJailed() {
			jailed++
			continue
		}
		if alive, err := c.e.App.ValsetKeeper.IsValidatorAlive(ctx, va); err != nil || !alive {
			lapsed++
		}
	}
	return jailed, lapsed
}

func (c *chain) build(names []string) [][]byte {
	var txs [][]byte
	for _, n := range names {
		txs = append(txs, c.tpl(n)...)
	}
	return txs
}

func firstLines(s string, max int) string {
	if len(s) > max {
		s = s[:max]
	}
	return s
}

// shortStack keeps the panic message and the frames of Paloma / SDK module code.
func shortStack(s string) string {
	lines := strings.Split(s, "\n")
	var out []string
	if len(lines) > 0 {
		out = append(out, lines[0])
	}
	for i := 1; i < len(lines); i++ {
		l := lines[i]
		if strings.Contains(l, "palomachain/paloma") && !strings.HasPrefix(strings.TrimSpace(l), "/") {
			fn := strings.TrimSpace(l)
			if j := strings.Index(fn, "("); j > 0 && strings.HasPrefix(fn, "github.com") {
				fn = fn[:strings.LastIndex(fn, "(")]
			}
			loc := ""
			if i+1 < len(lines) {
				loc = strings.TrimSpace(lines[i+1])
				if j := strings.Index(loc, " +0x"); j > 0 {
					loc = loc[:j]
				}
			}
			out = append(out, strings.TrimPrefix(fn, "github.com/palomachain/paloma/v2/")+" @ "+loc)
		}
		if len(out) > 14 {
			break
		}
	}
	return strings.Join(out, " | ")
}

var theWorld *world

func getWorld() *world {
	if theWorld == nil {
		theWorld = newWorld(envInt("VERIF_CH_BASE", worldBase))
	}
	return theWorld
}

// other kinds of world, built when a history asks for them; a preparation that aborted is remembered with its stack
type worldOrAbort struct {
	w     *world
	stack string
}

var otherWorlds = map[string]*worldOrAbort{}

func getWorldOf(kind string) (*world, string) {
	if kind == "" || kind == "std" {
		return getWorld(), ""
	}
	if x, ok := otherWorlds[kind]; ok {
		return x.w, x.stack
	}
	k, ok := worldKinds[kind]
	if !ok {
		panic("unknown world " + kind)
	}
	w, stack := newWorldOf(k, envInt("VERIF_CH_BASE", worldBase))
	otherWorlds[kind] = &worldOrAbort{w, stack}
	return w, stack
}

func TestDriveNoAbort(t *testing.T) {
	hs, err := drv.LoadHistories()
	if err != nil {
		t.Fatal(err)
	}
	em, err := drv.NewEmitter()
	if err != nil {
		t.Fatal(err)
	}
	defer em.Close()
	t0 := time.Now()
	w := getWorld()
	t.Logf("world at %d in %v", w.height, time.Since(t0))
	long := os.Getenv("VERIF_CH_LONG") == "1"
	for _, h := range hs {
		runNoAbort(t, em, w, h, long)
	}
	t.Logf("%d histories in %v", len(hs), time.Since(t0))
}

func runNoAbort(t *testing.T, em *drv.Emitter, w *world, h drv.History, long bool) {
	if len(h.Steps) < 2 || h.Steps[0].Act != "Prepare" {
		t.Fatalf("history %d: must start with Prepare", h.H)
	}
	var ia c09Args
	must(json.Unmarshal(h.Steps[0].Args, &ia))
	target, ok := hostileHeight[ia.HClass]
	script, ok2 := stageScript[ia.Stage]
	if !ok || !ok2 {
		t.Fatalf("history %d: unknown stage / height class %v", h.H, ia)
	}
	if ia.World == "" {
		ia.World = "std"
	}
	prepArgs := map[string]any{"stage": ia.Stage, "hclass": ia.HClass, "world": ia.World}
	if ia.World != "std" {
		ww, stack := getWorldOf(ia.World)
		if ww == nil {
			// the world itself could not be prepared: a block of its preparation aborted
			em.Emit(map[string]any{"h": h.H, "i": 0, "act": "Prepare", "args": prepArgs, "res": "abort", "height": 0, "whash": "", "stack": shortStack(stack)})
			for i, st := range h.Steps[1:] {
				if st.Act != "Run" {
					t.Fatalf("history %d: only Run may follow Prepare in world %s", h.H, ia.World)
				}
				var ra c09Args
				if len(st.Args) > 0 {
					must(json.Unmarshal(st.Args, &ra))
				}
				em.Emit(map[string]any{"h": h.H, "i": i + 1, "act": "Run", "args": map[string]any{"mode": ra.Mode, "span": ra.Span}, "res": "skipped", "blocks": 0, "stack": "", "log": "",
					"long": long, "at": 0, "m10": false, "m50": false, "m300": false, "m303": false, "pruned": 0, "jailed": 0, "lapsed": 0})
			}
			return
		}
		w = ww
	}
	// the prepared stage at the block before the hostile one is built once per process and forked per history
	key := ia.Stage + "|" + ia.HClass
	p, ok := w.prepared[key]
	if !ok {
		pc := w.fork()
		keepAlive = append(keepAlive, pc.e)
		p = &preparedStage{e: pc.e, res: "ok"}
		for pc.e.Height < target-1 {
			k := int(target-1-pc.e.Height) - 1 // blocks still to go after this one
			var txs [][]byte
			if k < len(script) {
				txs = pc.build(script[len(script)-1-k])
			}
			if _, err := pc.e.DeliverBlock(txs); err != nil {
				p.res, p.stack = "abort", err.Error()
				break
			}
		}
		w.prepared[key] = p
	}
	dead := p.res != "ok" // the chain aborted: nothing more can be delivered
	initRes, initStack := p.res, p.stack
	// a Gate step says which software version the node of this history runs: the application is created with it
	for _, st := range h.Steps[1:] {
		if st.Act == "Gate" {
			var ga c09Args
			must(json.Unmarshal(st.Args, &ga))
			old := sdkversion.Version
			sdkversion.Version = ga.App.String()
			defer func() { sdkversion.Version = old }()
		}
	}
	var c *chain
	if dead {
		c = &chain{w: w, e: p.e}
	} else {
		f, err := p.e.Fork(1)
		must(err)
		c = &chain{w: w, e: f}
		defer c.close()
	}
	deliver := func(txs [][]byte) (codes []int, stack string) {
		res, err := c.e.DeliverBlock(txs)
		if err != nil {
			dead = true
			return nil, err.Error()
		}
		for _, r := range res.TxResults {
			codes = append(codes, int(r.Code))
		}
		return codes, ""
	}
	em.Emit(map[string]any{"h": h.H, "i": 0, "act": "Prepare", "args": prepArgs, "res": initRes,
		"height": int(c.e.Height), "whash": w.hash, "stack": shortStack(initStack)})
	hostileAt := int64(0)
	gate, rejected := false, false
	for i, st := range h.Steps[1:] {
		ev := map[string]any{"h": h.H, "i": i + 1, "act": st.Act}
		switch st.Act {
		case "Hostile":
			var a c09Args
			must(json.Unmarshal(st.Args, &a))
			ev["args"] = map[string]any{"kind": a.Kind, "param": a.Param, "class": a.Class}
			ev["res"], ev["height"], ev["ncode0"], ev["ntx"], ev["stack"], ev["log"] = "skipped", int(c.e.Height+1), 0, 0, "", ""
			if dead {
				break
			}
			txs, err := c.hostile(a.Kind, a.Param, a.Class)
			if err != nil {
				ev["res"], ev["log"] = "harness", firstLines(err.Error(), 300)
				break
			}
			hostileAt = c.e.Height + 1
			codes, stack := deliver(txs)
			if stack != "" {
				ev["res"], ev["stack"] = "abort", shortStack(stack)
				ev["log"] = firstLines(stack, 6000)
				break
			}
			n0 := 0
			for _, cd := range codes {
				if cd == 0 {
					n0++
				}
			}
			ev["ncode0"], ev["ntx"] = n0, len(codes)
			if n0 > 0 {
				ev["res"] = "accepted"
			} else {
				ev["res"], rejected = "rejected", true
				if c.e.LastRes != nil && len(c.e.LastRes.TxResults) > 0 {
					r := c.e.LastRes.TxResults[0]
					ev["log"] = firstLines(fmt.Sprintf("%s/%d %s", r.Codespace, r.Code, r.Log), 200)
				}
			}
		case "Gate":
			var ga c09Args
			must(json.Unmarshal(st.Args, &ga))
			ev["args"] = map[string]any{"app": ga.App.json(), "gov": ga.Gov.json()}
			ev["res"] = "skipped"
			ev["running"] = c.e.App.Version()
			if dead {
				break
			}
			name := ga.Gov.String()
			// governance completed the upgrade `name` (x/upgrade done marker). The binary knows the upgrade (a handler is
			// registered), so x/upgrade lets the block begin and x/paloma's CheckChainVersion compares the versions.
			c.e.App.UpgradeKeeper.SetUpgradeHandler(name, func(ctx context.Context, _ upgradetypes.Plan, vm module.VersionMap) (module.VersionMap, error) {
				return vm, nil
			})
			must(c.e.Setup(func(ctx sdk.Context) error {
				key := make([]byte, 9+len(name))
				key[0] = 0x1 // upgradetypes.DoneByte
				binary.BigEndian.PutUint64(key[1:9], uint64(c.e.Height))
				copy(key[9:], name)
				ctx.KVStore(c.e.App.GetKey("upgrade")).Set(key, []byte{1})
				return nil
			}))
			gate = true
			hostileAt = c.e.Height + 1
			ev["res"] = "armed"
		case "Run":
			var ra c09Args
			if len(st.Args) > 0 {
				must(json.Unmarshal(st.Args, &ra))
			}
			if ra.Mode == "" {
				ra.Mode = "duty"
			}
			if ra.Span == "" {
				ra.Span = "next"
			}
			ev["args"] = map[string]any{"mode": ra.Mode, "span": ra.Span}
			cov := map[string]bool{"m10": false, "m50": false, "m300": false, "m303": false}
			ev["res"], ev["blocks"], ev["stack"], ev["log"], ev["long"] = "ok", 0, "", "", long
			ev["pruned"], ev["jailed"], ev["lapsed"] = 0, 0, 0
			var before map[string]bool
			if !dead {
				before = c.reported()
			}
			if dead {
				ev["res"] = "skipped"
			} else {
				if hostileAt == 0 {
					hostileAt = c.e.Height + 1
				}
				// heights finalised at or after the hostile block count (its own end blocker ran after the tx)
				mark := func(h int64) {
					if h%10 == 0 {
						cov["m10"] = true
					}
					if h%50 == 0 {
						cov["m50"] = true
					}
					if h%300 == 0 {
						cov["m300"] = true
					}
					if h%303 == 0 {
						cov["m303"] = true
					}
				}
				if !gate {
					mark(hostileAt)
				}
				need300, need303 := long || hostileAt <= 300, long || hostileAt <= 303
				done := func() bool {
					return cov["m10"] && cov["m50"] && (!need300 || cov["m300"]) && (!need303 || cov["m303"])
				}
				if rejected {
					// nothing of the transaction reached the state: two more blocks only
					k := 0
					done = func() bool { k++; return k > 2 }
				}
				n := 0
				base := done
				switch ra.Span {
				case "prune":
					// past the first pruning height (= 0 mod 50) at which what was queued before the run is older than 300 blocks
					done = func() bool { return base() && c.e.Height >= 610 }
				case "120":
					done = func() bool { return base() && n >= 120 }
				}
				for !done() && n < 700 {
					_, stack := deliver(c.dutyTxs(ra.Mode))
					n++
					if stack != "" {
						ev["res"], ev["stack"], ev["log"] = "abort", shortStack(stack), firstLines(stack, 6000)
						break
					}
					mark(c.e.Height)
				}
				ev["blocks"] = n
				if !dead {
					after := c.reported()
					gone := 0
					for id := range before {
						if !after[id] {
							gone++
						}
					}
					ev["pruned"] = gone
					ev["jailed"], ev["lapsed"] = c.census()
				}
			}
			ev["at"] = int(c.e.Height)
			for k, v := range cov {
				ev[k] = v
			}
		default:
			t.Fatalf("history %d: unknown step %s", h.H, st.Act)
		}
		em.Emit(ev)
	}
}

// TestDumpCatalogue writes the (kind, parameter, tag) table of the driver as one event.
func TestDumpCatalogue(t *testing.T) {
	em, err := drv.NewEmitter()
	if err != nil {
		t.Fatal(err)
	}
	defer em.Close()
	w := getWorld()
	c := w.fork()
	defer c.close()
	tab := catalogueTable(c)
	out := map[string]any{}
	for k, ls := range tab {
		var rows [][]string
		for _, l := range ls {
			rows = append(rows, []string{l.Path, l.Tag})
		}
		out[k] = rows
	}
	mods := map[string]string{}
	for _, k := range kinds {
		mods[k.name] = k.module
	}
	em.Emit(map[string]any{"h": 0, "i": 0, "act": "Catalogue", "kinds": out, "modules": mods, "classes": ClassesOf, "templates": Templates})
}
