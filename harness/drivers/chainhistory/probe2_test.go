//go:build verif

package chainhistory

import (
	"testing"
	"time"
)

func TestProbeCatalogue(t *testing.T) {
	w := newWorld(60)
	c := w.fork()
	// some state
	for _, s := range [][]string{{"createjob", "tfcreate", "uploaduser", "send", "lnlicense"}, {"execjob", "deployuser", "tfmint"}, {"sign"}} {
		var txs [][]byte
		for _, n := range s {
			txs = append(txs, c.tpl(n)...)
		}
		if _, err := c.e.DeliverBlock(txs); err != nil {
			t.Fatal(err)
		}
	}
	tab := catalogueTable(c)
	n, nv := 0, 0
	for _, k := range kinds {
		for _, l := range tab[k.name] {
			n++
			nv += len(ClassesOf[l.Tag])
		}
		t.Logf("%s: %d params", k.name, len(tab[k.name]))
	}
	t.Logf("kinds %d params %d variants %d", len(kinds), n, nv)
	c.close()
	t0 := time.Now()
	acc, rej, herr, abort := 0, 0, 0, 0
	// base messages first
	for _, k := range kinds {
		c := w.fork()
		for _, s := range [][]string{{"createjob", "tfcreate", "uploaduser", "send", "lnlicense"}, {"execjob", "deployuser", "tfmint"}, {"sign"}} {
			var txs [][]byte
			for _, n := range s {
				txs = append(txs, c.tpl(n)...)
			}
			if _, err := c.e.DeliverBlock(txs); err != nil {
				t.Fatal(err)
			}
		}
		txs, err := c.hostile(k.name, "", "base")
		if err != nil {
			t.Errorf("%s base: %v", k.name, err)
			c.close()
			continue
		}
		res, err := c.e.DeliverBlock(txs)
		if err != nil {
			t.Logf("%s base: ABORT %.300s", k.name, err)
		} else {
			t.Logf("%s base: code %d %s %.150s", k.name, res.TxResults[0].Code, res.TxResults[0].Codespace, res.TxResults[0].Log)
		}
		for _, l := range tab[k.name] {
			for _, cl := range ClassesOf[l.Tag] {
				txs, err := c.hostile(k.name, l.Path, cl)
				if err != nil {
					herr++
					t.Logf("HARNESS %s %s %s: %v", k.name, l.Path, cl, err)
					continue
				}
				res, err := c.e.DeliverBlock(txs)
				if err != nil {
					abort++
					t.Logf("ABORT %s %s %s: %.600s", k.name, l.Path, cl, err)
					c.close()
					c = w.fork()
					continue
				}
				if res.TxResults[0].Code == 0 {
					acc++
				} else {
					rej++
				}
			}
		}
		c.close()
	}
	t.Logf("accepted %d rejected %d harness errors %d aborts %d in %v", acc, rej, herr, abort, time.Since(t0))
}
