//go:build verif

package chainhistory

// Transaction templates: the catalogue names of specs/ChainHistory.tla bound to really signed transactions.
// A template is resolved against the committed state of the chain it is built for (which message is pending,
// which batch waits for confirmations, ...), the way a pigeon / wallet would; a template whose precondition
// does not hold still produces its transaction where that is possible (the chain then rejects it).
// Nothing here knows what the chain is supposed to answer.

import (
	"encoding/hex"
	"encoding/json"
	"fmt"
	"math/big"
	"sort"

	"cosmossdk.io/math"
	codectypes "github.com/cosmos/cosmos-sdk/codec/types"
	"github.com/cosmos/cosmos-sdk/crypto/keys/ed25519"
	"github.com/cosmos/cosmos-sdk/crypto/keys/secp256k1"
	sdk "github.com/cosmos/cosmos-sdk/types"
	banktypes "github.com/cosmos/cosmos-sdk/x/bank/types"
	stakingtypes "github.com/cosmos/cosmos-sdk/x/staking/types"
	gogoproto "github.com/cosmos/gogoproto/proto"
	gethcommon "github.com/ethereum/go-ethereum/common"
	ethtypes "github.com/ethereum/go-ethereum/core/types"
	"github.com/ethereum/go-ethereum/crypto"
	consensustypes "github.com/palomachain/paloma/v2/x/consensus/types"
	evmtypes "github.com/palomachain/paloma/v2/x/evm/types"
	palomatypes "github.com/palomachain/paloma/v2/x/paloma/types"
	schedulertypes "github.com/palomachain/paloma/v2/x/scheduler/types"
	skywaytypes "github.com/palomachain/paloma/v2/x/skyway/types"
	tftypes "github.com/palomachain/paloma/v2/x/tokenfactory/types"
	treasurytypes "github.com/palomachain/paloma/v2/x/treasury/types"
	valsettypes "github.com/palomachain/paloma/v2/x/valset/types"
	"verifharness/drv"
	"verifharness/env"
)

// Templates lists every template name (the spec's catalogue must name exactly these).
var Templates = []string{
	// valset / treasury
	"keepalive", "extinfo", "fee", "feediff",
	// scheduler / evm
	"createjob", "execjob", "uploaduser", "deployuser",
	// consensus duties of the pigeons
	"estimate", "sign", "relayerr", "relayok", "attesterr", "attestsplit", "balances", "refblock",
	// contentious evidence: validators 0 and 1 report one thing, validator 2 another, validator 3 nothing (together 75 % of
	// the power, no proof with 2/3); evidence from a validator that is not in the snapshot
	"attestsplit3", "txsplit", "refsplit", "balsplit", "newval", "newvalalive", "attestnew",
	// the relayed transaction really matches the queued message (relayok publishes its hash); attestok: every validator proves it
	"attestok",
	// validator life cycle: validator 3 withdraws its whole stake (removed from staking when the unbonding period ends) and
	// later joins again
	"unbondall", "rejoin",
	// evidence from validator 0 only (everybody else stays silent about a reported message)
	"attest0",
	// skyway
	"send", "cancel", "batchest", "confirm", "batchclaim", "deposit", "lightsale", "claims2",
	// tokenfactory
	"tfcreate", "tfmint",
	// paloma
	"status", "statusbad", "lnlicense", "lnregister", "lnauth",
	// sdk
	"banksend", "delegate",
}

func (c *chain) sign(a *env.Account, msgs ...sdk.Msg) []byte { return c.e.SignTx(a, msgs...) }

// lnClient is the light node client key of this world (an account that exists only after "lnlicense").
func (c *chain) lnClient() *env.Account {
	priv := secp256k1.GenPrivKeyFromSecret([]byte(fmt.Sprintf("verif-chainhistory-lnclient-%d", drv.Seed())))
	addr := sdk.AccAddress(priv.PubKey().Address())
	if a := c.e.AccountOf(addr); a != nil {
		return a
	}
	return c.e.AddAccount(env.Account{Name: "lnclient", Priv: priv, Addr: addr})
}

func jobID(h int64) string { return fmt.Sprintf("job-h%d", h) }

// latestJob is the id of the job created last by user 0 ("nojob" if there is none).
func (c *chain) latestJob() string {
	best, bestH := "nojob", int64(-1)
	ctx := c.ctx()
	for h := c.e.Height; h > c.e.Height-400 && h > 0; h-- {
		if c.e.App.SchedulerKeeper.JobIDExists(ctx, jobID(h)) {
			if h > bestH {
				best, bestH = jobID(h), h
			}
			break
		}
	}
	return best
}

func (c *chain) subdenom(h int64) string { return fmt.Sprintf("s%d", h) }

func (c *chain) latestDenom() string {
	ctx := c.ctx()
	creator := c.user(0).Bech32()
	for h := c.e.Height; h > c.e.Height-400 && h > 0; h-- {
		d := "factory/" + creator + "/" + c.subdenom(h)
		if _, err := c.e.App.TokenFactoryKeeper.GetAuthorityMetadata(ctx, d); err == nil {
			if c.e.App.TokenFactoryKeeper.GetDenomPrefixStore(ctx, d).Has([]byte(tftypes.DenomAuthorityMetadataKey)) {
				return d
			}
		}
	}
	return "factory/" + creator + "/none"
}

// newest: a pigeon works on at most 30 messages of a queue per block, the newest first
func newest(ms []consensustypes.QueuedSignedMessageI, err error) []consensustypes.QueuedSignedMessageI {
	if err != nil {
		return nil
	}
	sort.SliceStable(ms, func(i, j int) bool { return ms[i].GetId() > ms[j].GetId() })
	if len(ms) > 30 {
		ms = ms[:30]
	}
	return ms
}

// queue helpers --------------------------------------------------------------------------------

func (c *chain) queueMsgs(q string) []consensustypes.QueuedSignedMessageI {
	ms, err := c.e.App.ConsensusKeeper.GetMessagesFromQueue(c.ctx(), q, 0)
	if err != nil {
		return nil
	}
	return ms
}

func (c *chain) evmMsg(m consensustypes.QueuedSignedMessageI) *evmtypes.Message {
	cm, err := m.ConsensusMsg(c.e.App.AppCodec())
	if err != nil {
		return nil
	}
	em, _ := cm.(*evmtypes.Message)
	return em
}

// pendingAssignee: the validator index assigned to the oldest fee-paying message of chain A that has no
// elected gas estimate yet (-1 if none).
func (c *chain) pendingAssignee() int {
	for _, m := range c.queueMsgs(turnstoneQueue(chainA)) {
		em := c.evmMsg(m)
		if em == nil || m.GetGasEstimate() > 0 {
			continue
		}
		if _, ok := em.Action.(evmtypes.FeePayer); ok {
			return c.valIdx(em.Assignee)
		}
	}
	return -1
}

func (c *chain) ethSign(v int, digest []byte) []byte {
	sig, err := crypto.Sign(crypto.Keccak256(append([]byte(sigPfx), digest...)), c.w.ethKey[v])
	must(err)
	return sig
}

// tpl builds the transactions of one template.
func (c *chain) tpl(name string) [][]byte {
	e := c.e
	ctx := c.ctx()
	ck := e.App.ConsensusKeeper
	var out [][]byte
	perVal := func(f func(v int, acc *env.Account) []sdk.Msg) {
		for v := 0; v < c.nv(); v++ {
			if c.silent(v) {
				continue // this validator's pigeon never runs
			}
			if ms := f(v, c.valAcc(v)); len(ms) > 0 {
				out = append(out, c.sign(c.valAcc(v), ms...))
			}
		}
	}
	switch name {
	case "keepalive":
		perVal(func(v int, a *env.Account) []sdk.Msg {
			return []sdk.Msg{&valsettypes.MsgKeepAlive{Metadata: metaOf(a), PigeonVersion: "v2.4.0"}}
		})
	case "extinfo":
		perVal(func(v int, a *env.Account) []sdk.Msg {
			var infos []*valsettypes.ExternalChainInfo
			for _, ch := range chains {
				infos = append(infos, &valsettypes.ExternalChainInfo{ChainType: "evm", ChainReferenceID: ch, Address: c.w.ethAddr[v].Hex(), Pubkey: c.w.ethAddr[v].Bytes(),
					Traits: []string{valsettypes.PIGEON_TRAIT_MEV}})
			}
			return []sdk.Msg{&valsettypes.MsgAddExternalChainInfoForValidator{Metadata: metaOf(a), ChainInfos: infos}}
		})
	case "fee", "feediff":
		perVal(func(v int, a *env.Account) []sdk.Msg {
			var fees []treasurytypes.RelayerFeeSetting_FeeSetting
			for _, ch := range chains {
				m := "1.1" // equal fees: every ranking is decided by the tie-break
				if name == "feediff" {
					m = fmt.Sprintf("1.%d", v+1)
				}
				fees = append(fees, treasurytypes.RelayerFeeSetting_FeeSetting{ChainReferenceId: ch, Multiplicator: dec(m)})
			}
			return []sdk.Msg{&treasurytypes.MsgUpsertRelayerFee{Metadata: metaOf(a), FeeSetting: &treasurytypes.RelayerFeeSetting{ValAddress: c.val(v).ValAddr.String(), Fees: fees}}}
		})
	case "createjob":
		u := c.user(0)
		out = append(out, c.sign(u, &schedulertypes.MsgCreateJob{Metadata: metaOf(u), Job: baseJob(jobID(e.Height + 1))}))
	case "execjob":
		u := c.user(0)
		out = append(out, c.sign(u, &schedulertypes.MsgExecuteJob{Metadata: metaOf(u), JobID: c.latestJob(), Payload: []byte(`{"hexPayload":"c0ffee01"}`)}))
	case "uploaduser":
		a := c.valAcc(1)
		out = append(out, c.sign(a, &evmtypes.MsgUploadUserSmartContractRequest{Metadata: metaOf(a), Title: "verif", AbiJson: "[]", Bytecode: "0x6001600255", ConstructorInput: "0x01"}))
	case "deployuser":
		a := c.valAcc(1)
		id := uint64(1)
		if cs, err := e.App.EvmKeeper.UserSmartContracts(ctx, c.val(1).ValAddr.String()); err == nil && len(cs) > 0 {
			id = cs[len(cs)-1].Id
		}
		out = append(out, c.sign(a, &evmtypes.MsgDeployUserSmartContractRequest{Metadata: metaOf(a), Id: id, TargetChain: chainA}))
	case "estimate":
		perVal(func(v int, a *env.Account) []sdk.Msg {
			var es []*consensustypes.MsgAddMessageGasEstimates_GasEstimate
			for _, ch := range chains {
				q := turnstoneQueue(ch)
				ms := newest(ck.GetMessagesForGasEstimation(ctx, q, c.val(v).ValAddr))
				for _, m := range ms {
					es = append(es, &consensustypes.MsgAddMessageGasEstimates_GasEstimate{MsgId: m.GetId(), QueueTypeName: q, Value: uint64(21000 + 100*v), EstimatedByAddress: c.w.ethAddr[v].Hex()})
				}
			}
			if len(es) == 0 {
				return nil
			}
			return []sdk.Msg{&consensustypes.MsgAddMessageGasEstimates{Metadata: metaOf(a), Estimates: es}}
		})
	case "sign":
		perVal(func(v int, a *env.Account) []sdk.Msg {
			var ss []*consensustypes.ConsensusMessageSignature
			for _, ch := range chains {
				q := turnstoneQueue(ch)
				ms := newest(ck.GetMessagesForSigning(ctx, q, c.val(v).ValAddr))
				for _, m := range ms {
					b, err := m.GetBytesToSign(e.App.AppCodec())
					if err != nil {
						continue
					}
					ss = append(ss, &consensustypes.ConsensusMessageSignature{Id: m.GetId(), QueueTypeName: q, Signature: c.ethSign(v, b), SignedByAddress: c.w.ethAddr[v].Hex()})
				}
			}
			if len(ss) == 0 {
				return nil
			}
			return []sdk.Msg{&consensustypes.MsgAddMessagesSignatures{Metadata: metaOf(a), SignedMessages: ss}}
		})
	case "relayerr", "relayok":
		perVal(func(v int, a *env.Account) []sdk.Msg {
			var out []sdk.Msg
			for _, ch := range chains {
				q := turnstoneQueue(ch)
				ms := newest(ck.GetMessagesForRelaying(ctx, q, c.val(v).ValAddr))
				for _, m := range ms {
					if m.GetPublicAccessData() != nil || m.GetErrorData() != nil {
						continue
					}
					if name == "relayerr" {
						out = append(out, &consensustypes.MsgSetErrorData{Metadata: metaOf(a), MessageID: m.GetId(), QueueTypeName: q, Data: []byte("execution reverted")})
					} else {
						snapID := uint64(0)
						if s, err := e.App.ValsetKeeper.GetCurrentSnapshot(ctx); err == nil && s != nil {
							snapID = s.Id
						}
						// the hash of the transaction the relayer sent: the compass call that matches the queued message
						hash := crypto.Keccak256([]byte(fmt.Sprintf("tx-%s-%d", q, m.GetId())))
						if tx, err := c.matchingTx(m, ch, snapID); err == nil {
							hash = tx.Hash().Bytes()
						}
						out = append(out, &consensustypes.MsgSetPublicAccessData{Metadata: metaOf(a), MessageID: m.GetId(), QueueTypeName: q, Data: hash, ValsetID: snapID})
					}
				}
			}
			return out
		})
	case "attestok":
		perVal(func(v int, a *env.Account) []sdk.Msg {
			var out []sdk.Msg
			for _, ch := range chains {
				q := turnstoneQueue(ch)
				ms := newest(ck.GetMessagesForAttesting(ctx, q, c.val(v).ValAddr))
				for _, m := range ms {
					pad := m.GetPublicAccessData()
					if pad == nil {
						continue
					}
					tx, err := c.matchingTx(m, ch, pad.GetValsetID())
					if err != nil {
						continue
					}
					p, err := codectypes.NewAnyWithValue(okProof(tx, receiptBytes(c.evmMsg(m), "ok")))
					must(err)
					out = append(out, &consensustypes.MsgAddEvidence{Metadata: metaOf(a), MessageID: m.GetId(), QueueTypeName: q, Proof: p})
				}
			}
			return out
		})
	case "attesterr", "attestsplit", "attest0":
		perVal(func(v int, a *env.Account) []sdk.Msg {
			var out []sdk.Msg
			if name == "attest0" && v != 0 {
				return nil
			}
			for _, ch := range chains {
				q := turnstoneQueue(ch)
				ms := newest(ck.GetMessagesForAttesting(ctx, q, c.val(v).ValAddr))
				for _, m := range ms {
					text := "execution reverted"
					if name == "attestsplit" {
						text = fmt.Sprintf("execution reverted (%d)", v%2)
					}
					p, err := codectypes.NewAnyWithValue(&evmtypes.SmartContractExecutionErrorProof{ErrorMessage: text})
					must(err)
					out = append(out, &consensustypes.MsgAddEvidence{Metadata: metaOf(a), MessageID: m.GetId(), QueueTypeName: q, Proof: p})
				}
			}
			return out
		})
	case "attestsplit3", "txsplit", "refsplit", "balsplit":
		perVal(func(v int, a *env.Account) []sdk.Msg {
			if v > 2 {
				return nil
			}
			side := 0
			if v == 2 {
				side = 1
			}
			var out []sdk.Msg
			for _, ch := range chains {
				q := turnstoneQueue(ch)
				switch name {
				case "refsplit":
					q = refblockQueue(ch)
				case "balsplit":
					q = balancesQueue(ch)
				}
				ms := newest(ck.GetMessagesForAttesting(ctx, q, c.val(v).ValAddr))
				for _, m := range ms {
					var proof gogoproto.Message
					switch name {
					case "attestsplit3":
						proof = &evmtypes.SmartContractExecutionErrorProof{ErrorMessage: fmt.Sprintf("execution reverted (side %d)", side)}
					case "txsplit":
						proof = txProof(c, uint64(100+side))
					case "refsplit":
						proof = &evmtypes.ReferenceBlockAttestationRes{BlockHeight: uint64(7000 + side), BlockHash: "0x" + hex.EncodeToString(crypto.Keccak256([]byte{byte(side)}))}
					case "balsplit":
						cm, err := m.ConsensusMsg(e.App.AppCodec())
						if err != nil {
							continue
						}
						req, ok := cm.(*evmtypes.ValidatorBalancesAttestation)
						if !ok {
							continue
						}
						bal := make([]string, len(req.HexAddresses))
						for i := range bal {
							bal[i] = fmt.Sprintf("%d000000000000000000", 1+side)
						}
						proof = &evmtypes.ValidatorBalancesAttestationRes{BlockHeight: 5000, Balances: bal}
					}
					p, err := codectypes.NewAnyWithValue(proof)
					must(err)
					out = append(out, &consensustypes.MsgAddEvidence{Metadata: metaOf(a), MessageID: m.GetId(), QueueTypeName: q, Proof: p})
				}
			}
			return out
		})
	case "unbondall":
		a := c.valAcc(3)
		out = append(out, c.sign(a, stakingtypes.NewMsgUndelegate(a.Bech32(), c.val(3).ValAddr.String(), sdk.NewCoin(env.BondDenom, sdk.TokensFromConsensusPower(c.val(3).Power, sdk.DefaultPowerReduction)))))
	case "rejoin":
		a := c.valAcc(3)
		m, err := stakingtypes.NewMsgCreateValidator(c.val(3).ValAddr.String(), c.val(3).Cons.PubKey(), sdk.NewInt64Coin(env.BondDenom, 8_000_000),
			stakingtypes.Description{Moniker: "v3-again"}, stakingtypes.NewCommissionRates(math.LegacyNewDecWithPrec(1, 1), math.LegacyNewDecWithPrec(2, 1), math.LegacyNewDecWithPrec(1, 2)), math.OneInt())
		must(err)
		out = append(out, c.sign(a, m), c.sign(a, &valsettypes.MsgKeepAlive{Metadata: metaOf(a), PigeonVersion: "v2.4.0"}))
	case "newval":
		// user 2 becomes a validator (bonded from the next block on, in no snapshot before the next build)
		u := c.user(2)
		pk := ed25519.GenPrivKeyFromSecret([]byte(fmt.Sprintf("verif-chainhistory-newval-%d", drv.Seed()))).PubKey()
		m, err := stakingtypes.NewMsgCreateValidator(sdk.ValAddress(u.Addr).String(), pk, sdk.NewInt64Coin(env.BondDenom, 3_000_000),
			stakingtypes.Description{Moniker: "newval"}, stakingtypes.NewCommissionRates(math.LegacyNewDecWithPrec(1, 1), math.LegacyNewDecWithPrec(2, 1), math.LegacyNewDecWithPrec(1, 2)), math.OneInt())
		must(err)
		out = append(out, c.sign(u, m))
	case "newvalalive":
		u := c.user(2)
		out = append(out, c.sign(u, &valsettypes.MsgKeepAlive{Metadata: metaOf(u), PigeonVersion: "v2.4.0"}))
	case "attestnew":
		u := c.user(2)
		va := sdk.ValAddress(u.Addr)
		var ms []sdk.Msg
		for _, ch := range chains {
			q := turnstoneQueue(ch)
			for _, m := range c.queueMsgs(q) {
				if m.GetPublicAccessData() == nil && m.GetErrorData() == nil {
					continue
				}
				already := false
				for _, ev := range m.GetEvidence() {
					already = already || ev.GetValAddress().Equals(va)
				}
				if already {
					continue
				}
				p, err := codectypes.NewAnyWithValue(&evmtypes.SmartContractExecutionErrorProof{ErrorMessage: "execution reverted"})
				must(err)
				ms = append(ms, &consensustypes.MsgAddEvidence{Metadata: metaOf(u), MessageID: m.GetId(), QueueTypeName: q, Proof: p})
			}
		}
		if len(ms) > 0 {
			out = append(out, c.sign(u, ms...))
		}
	case "balances":
		perVal(func(v int, a *env.Account) []sdk.Msg {
			var out []sdk.Msg
			for _, ch := range chains {
				q := balancesQueue(ch)
				ms := newest(ck.GetMessagesForAttesting(ctx, q, c.val(v).ValAddr))
				for _, m := range ms {
					cm, err := m.ConsensusMsg(e.App.AppCodec())
					if err != nil {
						continue
					}
					req, ok := cm.(*evmtypes.ValidatorBalancesAttestation)
					if !ok {
						continue
					}
					bal := make([]string, len(req.HexAddresses))
					for i := range bal {
						bal[i] = "1000000000000000000"
					}
					p, err := codectypes.NewAnyWithValue(&evmtypes.ValidatorBalancesAttestationRes{BlockHeight: 5000, Balances: bal})
					must(err)
					out = append(out, &consensustypes.MsgAddEvidence{Metadata: metaOf(a), MessageID: m.GetId(), QueueTypeName: q, Proof: p})
				}
			}
			return out
		})
	case "refblock":
		perVal(func(v int, a *env.Account) []sdk.Msg {
			var out []sdk.Msg
			for _, ch := range chains {
				q := refblockQueue(ch)
				ms := newest(ck.GetMessagesForAttesting(ctx, q, c.val(v).ValAddr))
				for _, m := range ms {
					p, err := codectypes.NewAnyWithValue(&evmtypes.ReferenceBlockAttestationRes{BlockHeight: 6000, BlockHash: "0x" + hex.EncodeToString(crypto.Keccak256([]byte("ref")))})
					must(err)
					out = append(out, &consensustypes.MsgAddEvidence{Metadata: metaOf(a), MessageID: m.GetId(), QueueTypeName: q, Proof: p})
				}
			}
			return out
		})
	case "send":
		u := c.user(1)
		out = append(out, c.sign(u, &skywaytypes.MsgSendToRemote{Metadata: metaOf(u), EthDest: ethDest, Amount: sdk.NewInt64Coin(env.BondDenom, 1000), ChainReferenceId: chainA}))
	case "cancel":
		u := c.user(1)
		id := uint64(1)
		if txs, err := e.App.SkywayKeeper.GetUnbatchedTransactions(ctx); err == nil {
			for _, t := range txs {
				if t.Sender.String() == u.Bech32() {
					id = t.Id
					break
				}
			}
		}
		out = append(out, c.sign(u, &skywaytypes.MsgCancelSendToRemote{Metadata: metaOf(u), TransactionId: id}))
	case "batchest":
		bs, _ := e.App.SkywayKeeper.GetOutgoingTxBatches(ctx)
		perVal(func(v int, a *env.Account) []sdk.Msg {
			var out []sdk.Msg
			for _, b := range bs {
				if b.GasEstimate > 0 {
					continue
				}
				if est, _ := e.App.SkywayKeeper.GetBatchGasEstimate(ctx, b.BatchNonce, b.TokenContract, c.val(v).ValAddr); est != nil {
					continue
				}
				out = append(out, &skywaytypes.MsgEstimateBatchGas{Metadata: metaOf(a), Nonce: b.BatchNonce, TokenContract: b.TokenContract.GetAddress().Hex(), EthSigner: c.w.ethAddr[v].Hex(), Estimate: uint64(50000 + 100*v)})
			}
			return out
		})
	case "confirm":
		bs, _ := e.App.SkywayKeeper.GetOutgoingTxBatches(ctx)
		perVal(func(v int, a *env.Account) []sdk.Msg {
			var out []sdk.Msg
			for _, b := range bs {
				if b.GasEstimate == 0 {
					continue
				}
				if cf, _ := e.App.SkywayKeeper.GetBatchConfirm(ctx, b.BatchNonce, b.TokenContract, a.Addr); cf != nil {
					continue
				}
				ci, err := e.App.EvmKeeper.GetChainInfo(ctx, b.ChainReferenceID)
				if err != nil {
					continue
				}
				cp, err := b.GetCheckpoint(string(ci.SmartContractUniqueID))
				if err != nil {
					continue
				}
				sig, err := skywaytypes.NewEthereumSignature(cp, c.w.ethKey[v])
				must(err)
				out = append(out, &skywaytypes.MsgConfirmBatch{Metadata: metaOf(a), Nonce: b.BatchNonce, TokenContract: b.TokenContract.GetAddress().Hex(), EthSigner: c.w.ethAddr[v].Hex(),
					Orchestrator: a.Bech32(), Signature: hex.EncodeToString(sig)})
			}
			return out
		})
	case "batchclaim", "deposit", "lightsale":
		bs, _ := e.App.SkywayKeeper.GetOutgoingTxBatches(ctx)
		sort.Slice(bs, func(i, j int) bool { return bs[i].BatchNonce < bs[j].BatchNonce })
		perVal(func(v int, a *env.Account) []sdk.Msg {
			n, _ := e.App.SkywayKeeper.GetLastSkywayNonceByValidator(ctx, c.val(v).ValAddr, chainA)
			n++
			eh := uint64(1000 + e.Height)
			switch name {
			case "batchclaim":
				bn, tc := uint64(1), erc20A
				if len(bs) > 0 {
					bn, tc = bs[0].BatchNonce, bs[0].TokenContract.GetAddress().Hex()
				}
				return []sdk.Msg{&skywaytypes.MsgBatchSendToRemoteClaim{Metadata: metaOf(a), EventNonce: n, EthBlockHeight: eh, BatchNonce: bn, TokenContract: tc, ChainReferenceId: chainA,
					Orchestrator: a.Bech32(), SkywayNonce: n, CompassId: compassID(chainA)}}
			case "deposit":
				return []sdk.Msg{&skywaytypes.MsgSendToPalomaClaim{Metadata: metaOf(a), EventNonce: n, EthBlockHeight: eh, TokenContract: erc20A, Amount: math.NewInt(500), EthereumSender: ethSrc,
					PalomaReceiver: c.user(2).Bech32(), Orchestrator: a.Bech32(), ChainReferenceId: chainA, SkywayNonce: n, CompassId: compassID(chainA)}}
			default:
				return []sdk.Msg{&skywaytypes.MsgLightNodeSaleClaim{Metadata: metaOf(a), EventNonce: n, EthBlockHeight: eh, Orchestrator: a.Bech32(), ChainReferenceId: chainA, SkywayNonce: n,
					ClientAddress: c.user(3).Bech32(), Amount: math.NewInt(700), SmartContractAddress: saleAddr, CompassId: compassID(chainA)}}
			}
		})
	case "claims2":
		// two events of the remote chain reported in one transaction per validator: a deposit (nonce n) and a light node
		// sale (nonce n+1) - two attestations complete in the same block
		perVal(func(v int, a *env.Account) []sdk.Msg {
			n, _ := e.App.SkywayKeeper.GetLastSkywayNonceByValidator(ctx, c.val(v).ValAddr, chainA)
			n++
			eh := uint64(1000 + e.Height)
			return []sdk.Msg{
				&skywaytypes.MsgSendToPalomaClaim{Metadata: metaOf(a), EventNonce: n, EthBlockHeight: eh, TokenContract: erc20A, Amount: math.NewInt(300), EthereumSender: ethSrc,
					PalomaReceiver: c.user(2).Bech32(), Orchestrator: a.Bech32(), ChainReferenceId: chainA, SkywayNonce: n, CompassId: compassID(chainA)},
				&skywaytypes.MsgLightNodeSaleClaim{Metadata: metaOf(a), EventNonce: n + 1, EthBlockHeight: eh + 1, Orchestrator: a.Bech32(), ChainReferenceId: chainA, SkywayNonce: n + 1,
					ClientAddress: c.user(3).Bech32(), Amount: math.NewInt(400), SmartContractAddress: saleAddr, CompassId: compassID(chainA)}}
		})
	case "tfcreate":
		u := c.user(0)
		out = append(out, c.sign(u, &tftypes.MsgCreateDenom{Metadata: metaOf(u), Subdenom: c.subdenom(e.Height + 1)}))
	case "tfmint":
		u := c.user(0)
		out = append(out, c.sign(u, &tftypes.MsgMint{Metadata: metaOf(u), Amount: sdk.NewInt64Coin(c.latestDenom(), 100)}))
	case "status", "statusbad":
		a := c.valAcc(0)
		lvl := palomatypes.MsgAddStatusUpdate_LEVEL_INFO
		if name == "statusbad" {
			lvl = palomatypes.MsgAddStatusUpdate_Level(7)
		}
		out = append(out, c.sign(a, &palomatypes.MsgAddStatusUpdate{Metadata: metaOf(a), Status: "relayed", Level: lvl,
			Args: []palomatypes.MsgAddStatusUpdate_KeyValuePair{{Key: "k", Value: "v"}}}))
	case "lnlicense":
		u := c.user(3)
		out = append(out, c.sign(u, &palomatypes.MsgAddLightNodeClientLicense{Metadata: metaOf(u), ClientAddress: c.lnClient().Bech32(), Amount: sdk.NewInt64Coin(env.BondDenom, 5000), VestingMonths: 12}))
	case "lnregister", "lnauth":
		cl := c.lnClient()
		var m sdk.Msg = &palomatypes.MsgRegisterLightNodeClient{Metadata: metaOf(cl)}
		if name == "lnauth" {
			m = &palomatypes.MsgAuthLightNodeClient{Metadata: metaOf(cl)}
		}
		out = append(out, c.sign(cl, m))
	case "banksend":
		u := c.user(0)
		out = append(out, c.sign(u, banktypes.NewMsgSend(u.Addr, c.user(1).Addr, sdk.NewCoins(sdk.NewInt64Coin(env.BondDenom, 12345)))))
	case "delegate":
		u := c.user(2)
		out = append(out, c.sign(u, stakingtypes.NewMsgDelegate(u.Bech32(), c.val(3).ValAddr.String(), sdk.NewInt64Coin(env.BondDenom, 2_000_000))))
	default:
		panic("unknown template " + name)
	}
	return out
}

func baseJob(id string) *schedulertypes.Job {
	def, _ := json.Marshal(map[string]string{"ABI": "[]", "address": "0x00000000000000000000000000000000000a11ce"})
	pay, _ := json.Marshal(map[string]string{"hexPayload": "deadbeef01"})
	return &schedulertypes.Job{ID: id, Routing: schedulertypes.Routing{ChainType: "evm", ChainReferenceID: chainA}, Definition: def, Payload: pay, IsPayloadModifiable: true}
}

// txProof: proof of a remote transaction (really signed by validator 0's external key, not the one the queued message asks for)
func txProof(c *chain, nonce uint64) *evmtypes.TxExecutedProof {
	to := gethcommon.HexToAddress(compassAddr(chainA))
	tx, err := ethtypes.SignTx(ethtypes.NewTx(&ethtypes.LegacyTx{Nonce: nonce, GasPrice: big.NewInt(1_000_000_000), Gas: 300_000, To: &to, Value: big.NewInt(0), Data: []byte{0xde, 0xad, 0xbe, 0xef}}),
		ethtypes.NewEIP155Signer(big.NewInt(100)), c.w.ethKey[0])
	must(err)
	raw, err := tx.MarshalBinary()
	must(err)
	rc, err := (&ethtypes.Receipt{Status: ethtypes.ReceiptStatusSuccessful, CumulativeGasUsed: 21000, Logs: []*ethtypes.Log{}, TxHash: tx.Hash(), GasUsed: 21000}).MarshalBinary()
	must(err)
	return &evmtypes.TxExecutedProof{SerializedTX: raw, SerializedReceipt: rc}
}

// matchingTx builds the remote transaction a relayer sends for a queued turnstone message: the compass call packed with the
// ABI that ships with the repository, the valset of the given snapshot and all signatures collected so far, signed by the
// external key of the assigned validator.
func (c *chain) matchingTx(m consensustypes.QueuedSignedMessageI, ch string, valsetID uint64) (*ethtypes.Transaction, error) {
	em := c.evmMsg(m)
	if em == nil {
		return nil, fmt.Errorf("not a turnstone message")
	}
	sigs := m.GetSignData()
	if len(sigs) == 0 {
		return nil, fmt.Errorf("no signatures yet")
	}
	resp, err := c.e.App.EvmKeeper.GetValsetByID(c.ctx(), &evmtypes.QueryGetValsetByIDRequest{ValsetID: valsetID, ChainReferenceID: ch})
	if err != nil {
		return nil, err
	}
	cons := evmtypes.BuildCompassConsensus(resp.Valset, sigs)
	relayer := gethcommon.HexToAddress(em.AssigneeRemoteAddress)
	id := new(big.Int).SetUint64(m.GetId())
	pad32 := func(b []byte) (out [32]byte) {
		if len(b) <= 32 {
			copy(out[32-len(b):], b)
		}
		return out
	}
	fee := func(f *evmtypes.Fees, payer []byte) evmtypes.FeeArgs {
		if f == nil {
			f = &evmtypes.Fees{}
		}
		return evmtypes.FeeArgs{RelayerFee: new(big.Int).SetUint64(f.RelayerFee), CommunityFee: new(big.Int).SetUint64(f.CommunityFee),
			SecurityFee: new(big.Int).SetUint64(f.SecurityFee), FeePayerPalomaAddress: pad32(payer)}
	}
	var data []byte
	switch a := em.Action.(type) {
	case *evmtypes.Message_SubmitLogicCall:
		x := a.SubmitLogicCall
		data, err = compassABI.Pack("submit_logic_call", cons, evmtypes.CompassLogicCallArgs{LogicContractAddress: gethcommon.HexToAddress(x.GetHexContractAddress()), Payload: x.GetPayload()},
			fee(x.Fees, x.SenderAddress), id, big.NewInt(x.GetDeadline()), relayer)
	case *evmtypes.Message_UploadUserSmartContract:
		x := a.UploadUserSmartContract
		data, err = compassABI.Pack("deploy_contract", cons, gethcommon.HexToAddress(x.GetDeployerAddress()), x.GetBytecode(), fee(x.Fees, x.SenderAddress), id, big.NewInt(x.GetDeadline()), relayer)
	case *evmtypes.Message_UpdateValset:
		data, err = compassABI.Pack("update_valset", cons, evmtypes.TransformValsetToCompassValset(a.UpdateValset.Valset), relayer, new(big.Int).SetUint64(m.GetGasEstimate()))
	default:
		return nil, fmt.Errorf("no relay transaction for %T", em.Action)
	}
	if err != nil {
		return nil, err
	}
	v := c.valIdx(em.Assignee)
	if v < 0 {
		v = 0
	}
	chainID := big.NewInt(100)
	if ch == chainB {
		chainID = big.NewInt(101)
	}
	to := gethcommon.HexToAddress(compassAddr(ch))
	return ethtypes.SignTx(ethtypes.NewTx(&ethtypes.DynamicFeeTx{ChainID: chainID, Nonce: m.GetId(), GasTipCap: big.NewInt(1), GasFeeCap: big.NewInt(1_000_000_000), Gas: 3_000_000, To: &to, Value: big.NewInt(0), Data: data}),
		ethtypes.LatestSignerForChainID(chainID), c.w.ethKey[v])
}

func okProof(tx *ethtypes.Transaction, receipt []byte) *evmtypes.TxExecutedProof {
	raw, err := tx.MarshalBinary()
	must(err)
	return &evmtypes.TxExecutedProof{SerializedTX: raw, SerializedReceipt: receipt}
}

// receiptBytes serialises the receipt of a relayed transaction. shape "ok" is what the remote chain produces for the kind of
// message (a user contract deployment carries compass' ContractDeployed event); the other shapes are the hostile classes of
// the catalogue tag "receipt".
func receiptBytes(em *evmtypes.Message, shape string) []byte {
	deployed := &ethtypes.Log{Address: gethcommon.HexToAddress(compassAddr(chainA)), Topics: []gethcommon.Hash{contractDeployedSig}, Data: deployedEventData}
	foreign := &ethtypes.Log{Address: gethcommon.HexToAddress("0x00000000000000000000000000000000000a11ce"), Topics: []gethcommon.Hash{crypto.Keccak256Hash([]byte("Hello(uint256)"))}, Data: []byte{1, 2, 3}}
	isDeploy := false
	if em != nil {
		_, isDeploy = em.Action.(*evmtypes.Message_UploadUserSmartContract)
	}
	r := &ethtypes.Receipt{Status: ethtypes.ReceiptStatusSuccessful, CumulativeGasUsed: 21000, GasUsed: 21000, Logs: []*ethtypes.Log{}}
	if isDeploy {
		r.Logs = []*ethtypes.Log{deployed}
	}
	switch shape {
	case "ok":
	case "empty":
		return []byte{}
	case "malformed":
		return []byte{0xff, 0x00, 0xfe, 0x7b, 0x22, 0x00}
	case "failed":
		r.Status = ethtypes.ReceiptStatusFailed
	case "nologs":
		r.Logs = []*ethtypes.Log{}
	case "notopics":
		// an anonymous event (LOG0) of the called / deployed contract before compass' own event
		r.Logs = []*ethtypes.Log{{Address: foreign.Address, Topics: nil, Data: []byte("hello from the constructor")}, deployed}
	case "foreignfirst":
		r.Logs = []*ethtypes.Log{foreign, foreign, deployed}
	case "manylogs":
		r.Logs = nil
		for i := 0; i < 400; i++ {
			r.Logs = append(r.Logs, foreign)
		}
		r.Logs = append(r.Logs, deployed)
	case "baddata":
		r.Logs = []*ethtypes.Log{{Address: deployed.Address, Topics: deployed.Topics, Data: []byte{0x01, 0x02}}}
	case "manytopics":
		r.Logs = []*ethtypes.Log{{Address: deployed.Address, Topics: []gethcommon.Hash{contractDeployedSig, contractDeployedSig, contractDeployedSig, contractDeployedSig}, Data: deployedEventData}}
	default:
		panic("unknown receipt shape " + shape)
	}
	bz, err := r.MarshalBinary()
	must(err)
	return bz
}
