//go:build verif

// Driver for specs/SkywayBridge.tla: executes TLC-generated histories against the real
// skyway keeper (E1 environment) and records the projection of the real stores after every step.
package bridge

import (
	"crypto/ecdsa"
	"encoding/hex"
	"encoding/json"
	"fmt"
	"os"
	"sort"
	"strconv"
	"testing"
	"time"

	"cosmossdk.io/math"
	codectypes "github.com/cosmos/cosmos-sdk/codec/types"
	"github.com/cosmos/cosmos-sdk/crypto/keys/secp256k1"
	sdk "github.com/cosmos/cosmos-sdk/types"
	authtypes "github.com/cosmos/cosmos-sdk/x/auth/types"
	distrtypes "github.com/cosmos/cosmos-sdk/x/distribution/types"
	"github.com/ethereum/go-ethereum/crypto"
	"github.com/palomachain/paloma/v2/util/blocks"
	"github.com/palomachain/paloma/v2/util/libcons"
	"github.com/palomachain/paloma/v2/x/skyway"
	skywaykeeper "github.com/palomachain/paloma/v2/x/skyway/keeper"
	st "github.com/palomachain/paloma/v2/x/skyway/types"
	valsettypes "github.com/palomachain/paloma/v2/x/valset/types"
	"verifharness/drv"
	"verifharness/env"
)

const (
	baseHeight = int64(blocks.DailyHeight * 20) // multiple of 50
	nTok       = 2
	nUser      = 2
)

// initial balance of every user in every bridged denom (VERIF_INITBAL, default 4; must match the generator's InitBal)
var initBal = func() int64 {
	if v, err := strconv.ParseInt(os.Getenv("VERIF_INITBAL"), 10, 64); err == nil && v > 0 {
		return v
	}
	return 4
}()

var baseTime = time.Date(2024, 1, 1, 0, 0, 0, 0, time.UTC)

type token struct {
	chain    string
	contract string
	denom    string
}

type world struct {
	e      *env.E1
	tokens []token // index t-1
	users  []sdk.AccAddress
	cc     *libcons.ConsensusChecker
	gov    func(ctx sdk.Context, c any) error
}

type args struct {
	U    int    `json:"u"`
	T    int    `json:"t"`
	A    int    `json:"a"`
	K    int    `json:"k"`
	Fm   int    `json:"fm"` // fault mode of k: 0 = the call returns an error, 1 = a lookup answers "not found"
	ID   int    `json:"id"`
	D    int    `json:"d"`
	Num  int    `json:"num"`
	Den  int    `json:"den"`
	Ex   []int  `json:"ex"`
	Lim  int    `json:"lim"`
	N    int    `json:"n"`
	Late bool   `json:"late"`
	Recv string `json:"recv"`
	V    int    `json:"v"`
	X    int    `json:"x"`
	Dh   int    `json:"dh"`
}

func newWorld(sameContract bool) *world {
	e := env.NewE1(env.E1Options{Seed: drv.Seed(), Chains: []string{"eth-a", "eth-b"}, Powers: []int64{10, 10, 10}})
	w := &world{e: e}
	c2 := "0x2222222222222222222222222222222222222222"
	if sameContract {
		c2 = "0x1111111111111111111111111111111111111111"
	}
	w.tokens = []token{
		{"eth-a", "0x1111111111111111111111111111111111111111", "utoka"},
		{"eth-b", c2, "utokb"},
	}
	h := skywaykeeper.NewSkywayProposalHandler(e.Skyway)
	for _, t := range w.tokens {
		if err := h(e.Ctx, &st.SetERC20ToDenomProposal{Title: "t", Description: "d", ChainReferenceId: t.chain, Erc20: t.contract, Denom: t.denom}); err != nil {
			panic(err)
		}
	}
	for i := 0; i < nUser; i++ {
		k := secp256k1.GenPrivKeyFromSecret([]byte(fmt.Sprintf("verif-bridge-user-%d-%d", drv.Seed(), i)))
		a := sdk.AccAddress(k.PubKey().Address())
		w.users = append(w.users, a)
		for _, t := range w.tokens {
			e.Fund(e.Ctx, a, sdk.NewCoins(sdk.NewInt64Coin(t.denom, initBal)))
		}
	}
	w.cc = libcons.New(e.Valset.GetCurrentSnapshot, e.Cdc)
	return w
}

// ---------------------------------------------------------------------------------------------
// per-history state
type run struct {
	w        *world
	ctx      sdk.Context
	height   int64             // relative
	nonce    map[string]uint64 // next event nonce per chain
	ethH     map[string]uint64
	seen     map[[2]int]bool            // issued checkpoints (nonce, est) ever observed on a stored batch
	lastSeen map[int]st.OutgoingTxBatch // last stored version of every batch (external form)
	newKey   map[int]*ecdsa.PrivateKey  // validators that rotated their remote-chain key: the key registered now
}

// curKey is the key validator v (1-based) has registered at the moment.
func (r *run) curKey(v int) *ecdsa.PrivateKey {
	if k, ok := r.newKey[v]; ok {
		return k
	}
	return r.w.e.Vals[v-1].EthKey
}

func (r *run) setHeight(h int64) {
	r.height = h
	r.ctx = r.ctx.WithBlockHeight(baseHeight + h).WithBlockTime(baseTime.Add(time.Duration(2*h) * time.Second))
}

func (r *run) userIdx(a sdk.AccAddress) int {
	for i, u := range r.w.users {
		if u.Equals(a) {
			return i + 1
		}
	}
	return 0
}

func (r *run) tokIdx(chain, contract string) int {
	for i, t := range r.w.tokens {
		if t.chain == chain && equalFold(t.contract, contract) {
			return i + 1
		}
	}
	return 0
}

func equalFold(a, b string) bool {
	x, _ := st.NewEthAddress(a)
	y, _ := st.NewEthAddress(b)
	return x != nil && y != nil && x.GetAddress() == y.GetAddress()
}

func (r *run) txObs(tx *st.InternalOutgoingTransferTx) map[string]any {
	return map[string]any{
		"id":     int(tx.Id),
		"sender": r.userIdx(tx.Sender),
		"tok":    r.tokIdx(tx.Erc20Token.ChainReferenceID, tx.Erc20Token.Contract.GetAddress().Hex()),
		"amt":    int(tx.Erc20Token.Amount.Int64()),
		"tax":    int(tx.BridgeTaxAmount.Int64()),
	}
}

func (r *run) observe() map[string]any {
	k := r.w.e.Skyway
	ctx := r.ctx
	o := map[string]any{}
	pool, err := k.GetUnbatchedTransactions(ctx)
	if err != nil {
		panic(err)
	}
	ps := []any{}
	for _, tx := range pool {
		ps = append(ps, r.txObs(tx))
	}
	o["pool"] = ps
	bs := []any{}
	batches, err := k.GetOutgoingTxBatches(ctx)
	if err != nil {
		panic(err)
	}
	sort.Slice(batches, func(i, j int) bool { return batches[i].BatchNonce < batches[j].BatchNonce })
	confirms := []any{}
	estimates := []any{}
	for _, b := range batches {
		txs := []any{}
		for _, tx := range b.Transactions {
			txs = append(txs, r.txObs(tx))
		}
		bs = append(bs, map[string]any{
			"nonce": int(b.BatchNonce), "tok": r.tokIdx(b.ChainReferenceID, b.TokenContract.GetAddress().Hex()), "txs": txs,
			"est": int(b.GasEstimate), "timeoutH": int((int64(b.BatchTimeout) - baseTime.Unix()) / 2),
		})
		r.seen[[2]int{int(b.BatchNonce), int(b.GasEstimate)}] = true
		r.lastSeen[int(b.BatchNonce)] = b.ToExternal()
		// stored bytes-to-sign must be the checkpoint of the batch as it stands
		ci, _ := r.w.e.Evm.GetChainInfo(ctx, b.ChainReferenceID)
		cp, _ := b.GetCheckpoint(string(ci.SmartContractUniqueID))
		cs, _ := k.GetBatchConfirmByNonceAndTokenContract(ctx, b.BatchNonce, b.TokenContract)
		for _, c := range cs {
			orch, _ := sdk.AccAddressFromBech32(c.Orchestrator)
			vi := r.valIdx(orch)
			sig, _ := hex.DecodeString(c.Signature)
			valid := false
			if vi > 0 {
				ea, found, _ := k.GetEthAddressByValidator(ctx, r.w.e.Vals[vi-1].Val, b.ChainReferenceID)
				if found {
					valid = st.ValidateEthereumSignature(cp, sig, *ea) == nil
				}
			}
			est := -1
			if valid {
				est = int(b.GasEstimate)
			}
			confirms = append(confirms, map[string]any{"nonce": int(b.BatchNonce), "val": vi, "est": est})
		}
		es, _ := k.GetBatchGasEstimateByNonceAndTokenContract(ctx, b.BatchNonce, b.TokenContract)
		for _, e := range es {
			a, _ := sdk.AccAddressFromBech32(e.Metadata.Creator)
			estimates = append(estimates, map[string]any{"nonce": int(b.BatchNonce), "val": r.valIdx(a), "value": int(e.Estimate)})
		}
	}
	o["batches"] = bs
	o["confirms"] = confirms
	o["estimates"] = estimates
	// orphan confirms (for batches that no longer exist) are reported too
	orphans := 0
	k.IterateBatchConfirms(ctx, func(_ []byte, c st.MsgConfirmBatch) bool {
		found := false
		for _, b := range batches {
			if b.BatchNonce == c.Nonce {
				found = true
			}
		}
		if !found {
			orphans++
		}
		return false
	})
	o["orphanConfirms"] = orphans
	mod := r.w.e.Account.GetModuleAddress(st.ModuleName)
	dist := r.w.e.Account.GetModuleAddress(distrtypes.ModuleName)
	escrow, supply, community := []int{}, []int{}, []int{}
	usage := []any{}
	for _, t := range r.w.tokens {
		escrow = append(escrow, int(r.w.e.Bank.GetBalance(ctx, mod, t.denom).Amount.Int64()))
		supply = append(supply, int(r.w.e.Bank.GetSupply(ctx, t.denom).Amount.Int64()))
		community = append(community, int(r.w.e.Bank.GetBalance(ctx, dist, t.denom).Amount.Int64()))
		u, err := k.BridgeTransferUsage(ctx, t.denom)
		if err != nil || u == nil || u.Total.IsNil() {
			usage = append(usage, map[string]any{"total": -1, "start": -1})
		} else {
			usage = append(usage, map[string]any{"total": int(u.Total.Int64()), "start": int(u.StartBlockHeight - baseHeight)})
		}
	}
	o["escrow"], o["supply"], o["community"], o["usage"] = escrow, supply, community, usage
	bal := []any{}
	for _, u := range r.w.users {
		row := []int{}
		for _, t := range r.w.tokens {
			row = append(row, int(r.w.e.Bank.GetBalance(ctx, u, t.denom).Amount.Int64()))
		}
		bal = append(bal, row)
	}
	o["bal"] = bal
	arch := []any{}
	keys := make([][2]int, 0, len(r.seen))
	for kx := range r.seen {
		keys = append(keys, kx)
	}
	sort.Slice(keys, func(i, j int) bool {
		return keys[i][0] < keys[j][0] || (keys[i][0] == keys[j][0] && keys[i][1] < keys[j][1])
	})
	issued := []any{}
	for _, kx := range keys {
		issued = append(issued, []int{kx[0], kx[1]})
		if cp := r.checkpointOf(kx[0], kx[1]); cp != nil && k.GetPastEthSignatureCheckpoint(ctx, cp) {
			arch = append(arch, []int{kx[0], kx[1]})
		}
	}
	o["issued"], o["archived"] = issued, arch
	jailed := []int{}
	for i, v := range r.w.e.Vals {
		val, err := r.w.e.Staking.GetValidator(ctx, v.Val)
		if err == nil && val.Jailed {
			jailed = append(jailed, i+1)
		}
	}
	o["jailed"] = jailed
	o["height"] = int(r.height)
	return o
}

func (r *run) valIdx(a sdk.AccAddress) int {
	for i, v := range r.w.e.Vals {
		if v.Acc.Equals(a) {
			return i + 1
		}
	}
	return 0
}

// checkpointOf recomputes the checkpoint of batch `nonce` with gas estimate `est` from its last stored form.
func (r *run) checkpointOf(nonce, est int) []byte {
	ext, ok := r.lastSeen[nonce]
	if !ok {
		return nil
	}
	ext.GasEstimate = uint64(est)
	ib, err := ext.ToInternal()
	if err != nil {
		return nil
	}
	ci, err := r.w.e.Evm.GetChainInfo(r.ctx, ext.ChainReferenceId)
	if err != nil {
		return nil
	}
	cp, err := ib.GetCheckpoint(string(ci.SmartContractUniqueID))
	if err != nil {
		return nil
	}
	return cp
}

func meta(a sdk.AccAddress) valsettypes.MsgMetadata {
	return valsettypes.MsgMetadata{Creator: a.String(), Signers: []string{a.String()}}
}

// limitPeriod is the limit period this driver process configures (VERIF_LIMIT_PERIOD, default DAILY); the window
// length the trace specification expects is a constant of its configuration, the one reported comes from the real code.
func limitPeriod() st.LimitPeriod {
	switch os.Getenv("VERIF_LIMIT_PERIOD") {
	case "WEEKLY":
		return st.LimitPeriod_WEEKLY
	case "MONTHLY":
		return st.LimitPeriod_MONTHLY
	case "YEARLY":
		return st.LimitPeriod_YEARLY
	}
	return st.LimitPeriod_DAILY
}

func (r *run) step(s drv.Step) (res string, extra map[string]any) {
	var a args
	if err := json.Unmarshal(s.Args, &a); err != nil {
		panic(err)
	}
	e := r.w.e
	extra = map[string]any{"fired": false, "id": 0, "calls": 0, "known": false}
	msg := func(f func(ctx sdk.Context) error, k int) string {
		flt := e.Arm(k)
		if a.Fm == 1 {
			flt = e.ArmMiss(k)
		}
		err, _ := env.RunMsg(r.ctx, f)
		e.Disarm()
		extra["fired"] = flt.Fired != ""
		extra["calls"] = flt.Calls
		if len(flt.Lookups) > 0 {
			extra["lookups"] = flt.Lookups
		}
		if err != nil {
			extra["err"] = err.Error()
			return "fail"
		}
		return "ok"
	}
	switch s.Act {
	case "Send":
		t := r.w.tokens[a.T-1]
		before, _ := e.Skyway.GetUnbatchedTransactions(r.ctx)
		res = msg(func(ctx sdk.Context) error {
			_, err := e.SkywayMsg.SendToRemote(ctx, &st.MsgSendToRemote{EthDest: "0x00000000000000000000000000000000000000aa", Amount: sdk.NewInt64Coin(t.denom, int64(a.A)), ChainReferenceId: t.chain, Metadata: meta(r.w.users[a.U-1])})
			return err
		}, a.K)
		if res == "ok" {
			after, _ := e.Skyway.GetUnbatchedTransactions(r.ctx)
			old := map[uint64]bool{}
			for _, tx := range before {
				old[tx.Id] = true
			}
			for _, tx := range after {
				if !old[tx.Id] {
					extra["id"] = int(tx.Id)
				}
			}
		}
	case "Cancel":
		res = msg(func(ctx sdk.Context) error {
			_, err := e.SkywayMsg.CancelSendToRemote(ctx, &st.MsgCancelSendToRemote{TransactionId: uint64(a.ID), Metadata: meta(r.w.users[a.U-1])})
			return err
		}, a.K)
	case "SetTax":
		ex := []string{}
		for _, u := range a.Ex {
			ex = append(ex, r.w.users[u-1].String())
		}
		h := skywaykeeper.NewSkywayProposalHandler(e.Skyway)
		if err := h(r.ctx, &st.SetBridgeTaxProposal{Title: "t", Description: "d", Token: r.w.tokens[a.D-1].denom, Rate: fmt.Sprintf("%d/%d", a.Num, a.Den), ExemptAddresses: ex}); err != nil {
			panic(err)
		}
		res = "gov"
	case "SetLimit":
		ex := []string{}
		for _, u := range a.Ex {
			ex = append(ex, r.w.users[u-1].String())
		}
		h := skywaykeeper.NewSkywayProposalHandler(e.Skyway)
		if err := h(r.ctx, &st.SetBridgeTransferLimitProposal{Title: "t", Description: "d", Token: r.w.tokens[a.D-1].denom, Limit: math.NewInt(int64(a.Lim)), LimitPeriod: limitPeriod(), ExemptAddresses: ex}); err != nil {
			panic(err)
		}
		res = "gov"
	case "ClaimExecuted", "ClaimDeposit":
		t := r.w.tokens[a.T-1]
		n := r.nonce[t.chain]
		r.ethH[t.chain]++
		eh := r.ethH[t.chain]
		if a.Late {
			eh = 4_000_000_000
			if b, ok := r.lastSeen[a.N]; ok {
				eh = b.BatchTimeout
			}
		}
		okAll := true
		for _, v := range e.Vals {
			var err error
			if s.Act == "ClaimExecuted" {
				m := &st.MsgBatchSendToRemoteClaim{EventNonce: n, EthBlockHeight: eh, BatchNonce: uint64(a.N), TokenContract: t.contract, ChainReferenceId: t.chain,
					Orchestrator: v.Acc.String(), Metadata: meta(v.Acc), SkywayNonce: n, CompassId: e.CompassID[t.chain]}
				err, _ = env.RunMsg(r.ctx, func(ctx sdk.Context) error { _, err := e.SkywayMsg.BatchSendToRemoteClaim(ctx, m); return err })
			} else {
				recv := ""
				switch a.Recv {
				case "user":
					recv = r.w.users[a.U-1].String()
				case "invalid":
					recv = "not-a-bech32-address"
				case "blocked":
					recv = authtypes.NewModuleAddress(distrtypes.ModuleName).String()
				}
				m := &st.MsgSendToPalomaClaim{EventNonce: n, EthBlockHeight: eh, TokenContract: t.contract, Amount: math.NewInt(int64(a.A)),
					EthereumSender: "0x00000000000000000000000000000000000000bb", PalomaReceiver: recv, Orchestrator: v.Acc.String(), ChainReferenceId: t.chain,
					Metadata: meta(v.Acc), SkywayNonce: n, CompassId: e.CompassID[t.chain]}
				err, _ = env.RunMsg(r.ctx, func(ctx sdk.Context) error { _, err := e.SkywayMsg.SendToPalomaClaim(ctx, m); return err })
			}
			if err != nil {
				okAll = false
				extra["err"] = err.Error()
			}
		}
		if okAll {
			r.nonce[t.chain] = n + 1
			res = "ok"
		} else {
			r.ethH[t.chain]--
			res = "fail"
		}
	case "EndBlock":
		flt := e.Arm(a.K)
		if a.Fm == 1 {
			flt = e.ArmMiss(a.K)
		}
		func() {
			defer func() {
				if rec := recover(); rec != nil {
					extra["err"] = fmt.Sprintf("panic: %v", rec)
				}
			}()
			skyway.EndBlocker(r.ctx, e.Skyway, r.w.cc)
		}()
		e.Disarm()
		extra["fired"] = flt.Fired != ""
		extra["calls"] = flt.Calls
		if len(flt.Lookups) > 0 {
			extra["lookups"] = flt.Lookups
		}
		if flt.Fired != "" {
			extra["firedAt"] = flt.Fired
		}
		res = "eb"
	case "Advance":
		r.setHeight(r.height + int64(a.Dh))
		res = "adv"
	case "Estimate":
		v := e.Vals[a.V-1]
		contract := r.w.tokens[0].contract
		if b, ok := r.lastSeen[a.N]; ok {
			contract = b.TokenContract
		}
		res = msg(func(ctx sdk.Context) error {
			_, err := e.SkywayMsg.EstimateBatchGas(ctx, &st.MsgEstimateBatchGas{Metadata: meta(v.Acc), Nonce: uint64(a.N), TokenContract: contract, EthSigner: v.EthAddr.Hex(), Estimate: uint64(a.X)})
			return err
		}, 0)
	case "Confirm":
		v := e.Vals[a.V-1]
		contract := r.w.tokens[0].contract
		cp := r.checkpointOf(a.N, a.X)
		if b, ok := r.lastSeen[a.N]; ok {
			contract = b.TokenContract
		}
		if cp == nil {
			cp = make([]byte, 32)
		}
		sig, err := st.NewEthereumSignature(cp, r.curKey(a.V))
		if err != nil {
			panic(err)
		}
		res = msg(func(ctx sdk.Context) error {
			_, err := e.SkywayMsg.ConfirmBatch(ctx, &st.MsgConfirmBatch{Nonce: uint64(a.N), TokenContract: contract, EthSigner: crypto.PubkeyToAddress(r.curKey(a.V).PublicKey).Hex(), Orchestrator: v.Acc.String(), Signature: hex.EncodeToString(sig), Metadata: meta(v.Acc)})
			return err
		}, 0)
	case "ReKey":
		// the validator registers a new key on every chain (the way pigeon does after a key rotation)
		v := e.Vals[a.V-1]
		k, _ := crypto.ToECDSA(crypto.Keccak256([]byte(fmt.Sprintf("verif-bridge-rekey-%d-%d", drv.Seed(), a.V))))
		addr := crypto.PubkeyToAddress(k.PublicKey)
		infos := []*valsettypes.ExternalChainInfo{}
		for _, c := range e.Opts.Chains {
			infos = append(infos, &valsettypes.ExternalChainInfo{ChainType: "evm", ChainReferenceID: c, Address: addr.Hex(), Pubkey: addr.Bytes()})
		}
		if err := e.Valset.AddExternalChainInfo(r.ctx, v.Val, infos); err != nil {
			panic(err)
		}
		if r.newKey == nil {
			r.newKey = map[int]*ecdsa.PrivateKey{}
		}
		r.newKey[a.V] = k
		res = "gov"
	case "Evidence", "EvidenceOld":
		v := e.Vals[a.V-1]
		signKey := r.curKey(a.V)
		if s.Act == "EvidenceOld" {
			signKey = v.EthKey // the key that WAS registered before the rotation
		}
		ext, ok := r.lastSeen[a.N]
		extra["known"] = ok
		if !ok {
			// a batch that never existed: fabricate one (a genuinely forged subject)
			ext = st.OutgoingTxBatch{BatchNonce: uint64(a.N), BatchTimeout: 12345, TokenContract: r.w.tokens[0].contract, ChainReferenceId: r.w.tokens[0].chain,
				Assignee: v.Val.String(), AssigneeRemoteAddress: v.EthAddr.Bytes(),
				Transactions: []st.OutgoingTransferTx{{Id: 999, Sender: r.w.users[0].String(), DestAddress: "0x00000000000000000000000000000000000000aa",
					Erc20Token: st.ERC20Token{Contract: r.w.tokens[0].contract, Amount: math.NewInt(1), ChainReferenceId: r.w.tokens[0].chain}, BridgeTaxAmount: math.ZeroInt()}}}
		}
		ext.GasEstimate = uint64(a.X)
		ib, err := ext.ToInternal()
		if err != nil {
			panic(err)
		}
		ci, _ := e.Evm.GetChainInfo(r.ctx, ext.ChainReferenceId)
		cp, err := ib.GetCheckpoint(string(ci.SmartContractUniqueID))
		if err != nil {
			panic(err)
		}
		sig, _ := st.NewEthereumSignature(cp, signKey)
		subj, err := codectypes.NewAnyWithValue(&ext)
		if err != nil {
			panic(err)
		}
		reporter := r.w.users[0]
		res = msg(func(ctx sdk.Context) error {
			_, err := e.SkywayMsg.SubmitBadSignatureEvidence(ctx, &st.MsgSubmitBadSignatureEvidence{Subject: subj, Signature: hex.EncodeToString(sig), ChainReferenceId: ext.ChainReferenceId, Metadata: meta(reporter)})
			return err
		}, 0)
	default:
		panic("unknown action " + s.Act)
	}
	return res, extra
}

func driveBridge(t *testing.T, sameContract bool) {
	hs, err := drv.LoadHistories()
	if err != nil {
		t.Fatal(err)
	}
	em, err := drv.NewEmitter()
	if err != nil {
		t.Fatal(err)
	}
	defer em.Close()
	w := newWorld(sameContract)
	for _, h := range hs {
		cctx, _ := w.e.Ctx.CacheContext() // branch of the prepared world, never written back
		r := &run{w: w, ctx: cctx, nonce: map[string]uint64{}, ethH: map[string]uint64{}, seen: map[[2]int]bool{}, lastSeen: map[int]st.OutgoingTxBatch{}}
		for _, c := range []string{"eth-a", "eth-b"} {
			r.nonce[c] = 1
			r.ethH[c] = 1000
		}
		r.setHeight(0)
		em.Emit(map[string]any{"h": h.H, "i": 0, "act": "Init", "obs": r.observe(), "period": int((&st.BridgeTransferLimit{LimitPeriod: limitPeriod()}).BlockLimit())})
		for i, s := range h.Steps {
			res, extra := r.step(s)
			ev := map[string]any{"h": h.H, "i": i + 1, "act": s.Act, "args": json.RawMessage(s.Args), "res": res, "obs": r.observe()}
			for k, v := range extra {
				ev[k] = v
			}
			if _, ok := ev["err"]; !ok {
				ev["err"] = ""
			}
			em.Emit(ev)
		}
	}
}

func TestDriveBridge(t *testing.T)             { driveBridge(t, false) }
func TestDriveBridgeSameContract(t *testing.T) { driveBridge(t, true) }
