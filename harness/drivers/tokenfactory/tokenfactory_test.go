//go:build verif

// Driver for specs/TokenFactory.tla: executes TLC-generated histories of
// Create / Mint / Burn / ChangeAdmin / SetMetadata against the full application (E2):
// every history runs on a fresh app, every action is one really signed transaction in a block
// of its own.  The driver has no expectations: it records the ABCI result and the projection
// of the real bank / tokenfactory stores after every step.
package tokenfactory

import (
	"encoding/json"
	"fmt"
	"os"
	"sort"
	"strconv"
	"strings"
	"testing"
	"time"

	"cosmossdk.io/math"
	storetypes "cosmossdk.io/store/types"
	"cosmossdk.io/x/feegrant"
	"github.com/cosmos/cosmos-sdk/codec"
	"github.com/cosmos/cosmos-sdk/crypto/keys/secp256k1"
	sdk "github.com/cosmos/cosmos-sdk/types"
	banktypes "github.com/cosmos/cosmos-sdk/x/bank/types"
	minttypes "github.com/cosmos/cosmos-sdk/x/mint/types"
	"github.com/palomachain/paloma/v2/app"
	tftypes "github.com/palomachain/paloma/v2/x/tokenfactory/types"
	valsettypes "github.com/palomachain/paloma/v2/x/valset/types"
	"verifharness/drv"
	"verifharness/env"
)

const nAcc = 3

// subClasses are the literal sub-denomination strings a model slot can be bound to (TokenFactoryGen.Bindings):
// hostile but valid (sdk.ValidateDenom allows '/', '.', an empty tail). Class 0 is the string of the native denom
// (rejected by the module because a denom of that name has supply) and is not a slot.
var subClasses = map[int]string{0: env.BondDenom,
	1: "sa", 2: "sb", 3: "sa/x",
	4: "../x", 5: "../../" + env.BondDenom, 6: "a/../../../ibc/ABC",
	7: "./sa", 8: "sa//x", 9: "sa/", 10: ""}

// fixed special (non-factory) denominations <<0, k>>; <<0, nFixed+c>> is "factory/<address of account c>"
var specials = map[int]string{1: env.BondDenom, 2: "factory/x", 3: "factory//x", 4: "factory/notanaddress/x", 5: "ibc/ABC"}

const nFixed = 5

type args struct {
	Who int `json:"who"`
	As  int `json:"as"`
	C   int `json:"c"`
	S   int `json:"s"`
	Amt int `json:"amt"`
	New int `json:"new"`
}

type genesisArgs struct {
	Funds []int `json:"funds"`
	Subs  []int `json:"subs"`  // class of every sub-denom slot (default plain: 1, 2)
	NMeta *int  `json:"nmeta"` // 1: the native denom has bank metadata in genesis (default), 0: it has none
	// fee allowances [granter, grantee] written by genesis (x/feegrant BasicAllowance without limits): the grantee
	// may sign messages whose Metadata.Creator is the granter (x/paloma VerifyAuthorisedSignatureDecorator)
	Grants [][]int `json:"grants"`
}

type dkey struct{ c, s int }

type world struct {
	e        *env.E2
	fee      sdk.Coin
	tracked  []dkey          // order of obs.den
	name     map[dkey]string // tracked denom strings
	byName   map[string]dkey
	subs     []int              // class bound to slot s (index s-1)
	supply0  math.Int           // native supply after genesis
	nativeMD banktypes.Metadata // native metadata as genesis wrote it
}

func envFunds() []int {
	fs := []int{2, 1, 0}
	if v := os.Getenv("VERIF_TF_FUNDS"); v != "" {
		fs = nil
		for _, p := range strings.Split(v, ",") {
			n, err := strconv.Atoi(strings.TrimSpace(p))
			if err != nil {
				panic(err)
			}
			fs = append(fs, n)
		}
	}
	return fs
}

func newWorld(funds []int, subs []int, nmeta int, grants [][]int) *world {
	params := tftypes.DefaultParams() // production default: the creation fee is charged (10 GRAIN)
	if len(params.DenomCreationFee) != 1 {
		panic("unexpected default creation fee")
	}
	fee := params.DenomCreationFee[0]
	var users []sdk.Coins
	for i := 0; i < nAcc; i++ {
		users = append(users, sdk.NewCoins(sdk.NewCoin(fee.Denom, fee.Amount.MulRaw(int64(funds[i])))))
	}
	userAddr := func(i int) sdk.AccAddress { // same derivation as env.NewE2 (the genesis hook runs before NewE2 returns)
		return sdk.AccAddress(secp256k1.GenPrivKeyFromSecret([]byte(fmt.Sprintf("verif-e2-user-%d-%d", drv.Seed(), i-1))).PubKey().Address())
	}
	e := env.NewE2(env.E2Options{Seed: drv.Seed(), Powers: []int64{10, 10}, Users: users,
		Genesis: func(cdc codec.Codec, gs app.GenesisState) {
			if len(grants) > 0 {
				var fg feegrant.GenesisState
				cdc.MustUnmarshalJSON(gs[feegrant.ModuleName], &fg)
				for _, p := range grants {
					g, err := feegrant.NewGrant(userAddr(p[0]), userAddr(p[1]), &feegrant.BasicAllowance{})
					if err != nil {
						panic(err)
					}
					fg.Allowances = append(fg.Allowances, g)
				}
				gs[feegrant.ModuleName] = cdc.MustMarshalJSON(&fg)
			}
			// no inflation: the native supply is then exactly observable (set-up, listed in the evidence)
			var mg minttypes.GenesisState
			cdc.MustUnmarshalJSON(gs[minttypes.ModuleName], &mg)
			mg.Minter.Inflation = math.LegacyZeroDec()
			mg.Minter.AnnualProvisions = math.LegacyZeroDec()
			mg.Params.InflationMax = math.LegacyZeroDec()
			mg.Params.InflationMin = math.LegacyZeroDec()
			mg.Params.InflationRateChange = math.LegacyZeroDec()
			gs[minttypes.ModuleName] = cdc.MustMarshalJSON(&mg)
			// the native denom carries bank metadata (what Paloma's BankModule default genesis defines, as on the
			// live chain), so that messages naming it get past the module's "has bank metadata" test
			// (nmeta = 0 leaves the genesis as `app.DefaultGenesis` makes it: no metadata for the native denom)
			var want, bg banktypes.GenesisState
			cdc.MustUnmarshalJSON(app.BankModule{}.DefaultGenesis(cdc), &want)
			cdc.MustUnmarshalJSON(gs[banktypes.ModuleName], &bg)
			if nmeta == 1 && len(bg.DenomMetadata) == 0 {
				bg.DenomMetadata = want.DenomMetadata
			}
			if nmeta == 0 {
				bg.DenomMetadata = nil
			}
			gs[banktypes.ModuleName] = cdc.MustMarshalJSON(&bg)
		}})
	w := &world{e: e, fee: fee, name: map[dkey]string{}, byName: map[string]dkey{}, subs: subs}
	// a factory denom is tracked under its LITERAL name factory/<creator>/<sub-denom as given>
	for c := 1; c <= nAcc; c++ {
		for s := 1; s <= len(subs); s++ {
			k := dkey{c, s}
			w.tracked = append(w.tracked, k)
			w.name[k] = "factory/" + e.User(c-1).Bech32() + "/" + subClasses[subs[s-1]]
		}
	}
	for s := 1; s <= nFixed; s++ {
		k := dkey{0, s}
		w.tracked = append(w.tracked, k)
		w.name[k] = specials[s]
	}
	for c := 1; c <= nAcc; c++ {
		k := dkey{0, nFixed + c}
		w.tracked = append(w.tracked, k)
		w.name[k] = "factory/" + e.User(c-1).Bech32()
	}
	for k, n := range w.name {
		if _, dup := w.byName[n]; dup {
			panic("tracked denom names collide: " + n)
		}
		w.byName[n] = k
	}
	return w
}

// subString is the literal sub-denom string of slot s (0 = the native denom's name).
func (w *world) subString(s int) string {
	if s >= 1 && s <= len(w.subs) {
		return subClasses[w.subs[s-1]]
	}
	if s == 0 {
		return subClasses[0]
	}
	return fmt.Sprintf("nosuchslot%d", s)
}

// denomOf gives the string for an argument pair, also for pairs that are not tracked.
func (w *world) denomOf(c, s int) string {
	if n, ok := w.name[dkey{c, s}]; ok {
		return n
	}
	if c >= 1 && c <= nAcc {
		return "factory/" + w.e.User(c-1).Bech32() + "/" + w.subString(s)
	}
	return fmt.Sprintf("factory/unknown%d/x%d", c, s)
}

func (w *world) addrOf(i int) string {
	switch {
	case i >= 1 && i <= nAcc:
		return w.e.User(i - 1).Bech32()
	case i == 0:
		return ""
	}
	return "notanaddress"
}

func (w *world) idxOf(addr string) int {
	if addr == "" {
		return 0
	}
	for i := 0; i < nAcc; i++ {
		if w.e.User(i).Bech32() == addr {
			return i + 1
		}
	}
	return -2
}

func small(x math.Int) int {
	const lim = 1_000_000_000
	if x.GT(math.NewInt(lim)) {
		return lim
	}
	if x.LT(math.NewInt(-lim)) {
		return -lim
	}
	return int(x.Int64())
}

// marker classifies bank metadata: 0 = as the creation / genesis wrote it, k = written by the driver's
// SetMetadata message of account k, -2 anything else.
func (w *world) marker(k dkey, md banktypes.Metadata) int {
	if k == (dkey{0, 1}) {
		if md.String() == w.nativeMD.String() {
			return 0
		}
	} else if md.Symbol == "" && md.Name == "" && md.Base == w.name[k] && len(md.DenomUnits) == 1 {
		return 0
	}
	if strings.HasPrefix(md.Symbol, "SET") && md.Base == w.name[k] {
		if n, err := strconv.Atoi(md.Symbol[3:]); err == nil {
			return n
		}
	}
	return -2
}

func (w *world) observe() map[string]any {
	e := w.e
	ctx := e.Ctx()
	tfk := e.App.TokenFactoryKeeper
	bk := e.App.BankKeeper
	modAddr := e.App.AccountKeeper.GetModuleAddress(tftypes.ModuleName)
	var den []map[string]any
	for _, k := range w.tracked {
		d := w.name[k]
		r := map[string]any{"c": k.c, "s": k.s}
		auth := 0
		admin := 0
		if tfk.GetDenomPrefixStore(ctx, d).Has([]byte(tftypes.DenomAuthorityMetadataKey)) {
			auth = 1
			am, err := tfk.GetAuthorityMetadata(ctx, d)
			if err != nil {
				admin = -3
			} else {
				admin = w.idxOf(am.Admin)
			}
		}
		r["auth"], r["admin"] = auth, admin
		md, found := bk.GetDenomMetaData(ctx, d)
		r["hm"], r["meta"] = 0, -1
		if found {
			r["hm"], r["meta"] = 1, w.marker(k, md)
		}
		sup := bk.GetSupply(ctx, d).Amount
		bals := make([]int, nAcc)
		if k == (dkey{0, 1}) {
			// native: difference to the genesis supply, and what every account holds beyond whole creation fees
			sup = sup.Sub(w.supply0)
			for i := 0; i < nAcc; i++ {
				bals[i] = small(bk.GetBalance(ctx, e.User(i).Addr, d).Amount.Mod(w.fee.Amount))
			}
		} else {
			for i := 0; i < nAcc; i++ {
				bals[i] = small(bk.GetBalance(ctx, e.User(i).Addr, d).Amount)
			}
		}
		r["sup"], r["bal"] = small(sup), bals
		r["mod"] = small(bk.GetBalance(ctx, modAddr, d).Amount)
		den = append(den, r)
	}
	funds := make([]int, nAcc)
	for i := 0; i < nAcc; i++ {
		funds[i] = small(bk.GetBalance(ctx, e.User(i).Addr, w.fee.Denom).Amount.Quo(w.fee.Amount))
	}
	// how many denoms the module knows at all (creator index), how many of them are tracked above
	n := 0
	it := tfk.GetAllDenomsIterator(ctx)
	for ; it.Valid(); it.Next() {
		n++
	}
	it.Close()
	// fee allowances among the tracked accounts, [granter, grantee]; an allowance involving anybody else shows as -2
	gr := [][]int{}
	_ = e.App.FeeGrantKeeper.IterateAllFeeAllowances(ctx, func(g feegrant.Grant) bool {
		gr = append(gr, []int{w.idxOf(g.Granter), w.idxOf(g.Grantee)})
		return false
	})
	sort.Slice(gr, func(i, j int) bool { return gr[i][0] < gr[j][0] || (gr[i][0] == gr[j][0] && gr[i][1] < gr[j][1]) })
	return map[string]any{"den": den, "funds": funds, "nden": n, "x": w.foreign(ctx), "grants": gr}
}

// foreign counts, per store, the denominations that are NOT one of the tracked literal names:
// [tokenfactory creator index, tokenfactory authority records, bank metadata, bank supply].
func (w *world) foreign(ctx sdk.Context) []int {
	x := make([]int, 4)
	tfk := w.e.App.TokenFactoryKeeper
	it := tfk.GetAllDenomsIterator(ctx)
	for ; it.Valid(); it.Next() {
		if _, ok := w.byName[string(it.Value())]; !ok {
			x[0]++
		}
	}
	it.Close()
	pre := []byte(tftypes.DenomsPrefixKey + tftypes.KeySeparator)
	suf := tftypes.KeySeparator + tftypes.DenomAuthorityMetadataKey
	it2 := storetypes.KVStorePrefixIterator(ctx.KVStore(w.e.App.GetKey(tftypes.StoreKey)), pre)
	for ; it2.Valid(); it2.Next() {
		k := strings.TrimPrefix(string(it2.Key()), string(pre))
		if !strings.HasSuffix(k, suf) {
			x[1]++ // a record of unknown shape
			continue
		}
		if _, ok := w.byName[strings.TrimSuffix(k, suf)]; !ok {
			x[1]++
		}
	}
	it2.Close()
	w.e.App.BankKeeper.IterateAllDenomMetaData(ctx, func(md banktypes.Metadata) bool {
		if _, ok := w.byName[md.Base]; !ok {
			x[2]++
		}
		return false
	})
	w.e.App.BankKeeper.IterateTotalSupply(ctx, func(c sdk.Coin) bool {
		if _, ok := w.byName[c.Denom]; !ok {
			x[3]++
		}
		return false
	})
	return x
}

func (w *world) msgFor(act string, a args) sdk.Msg {
	md := valsettypes.MsgMetadata{Creator: w.addrOf(a.As), Signers: []string{w.addrOf(a.Who)}}
	switch act {
	case "Create":
		return &tftypes.MsgCreateDenom{Subdenom: w.subString(a.S), Metadata: md}
	case "Mint":
		return &tftypes.MsgMint{Amount: sdk.Coin{Denom: w.denomOf(a.C, a.S), Amount: math.NewInt(int64(a.Amt))}, Metadata: md}
	case "Burn":
		return &tftypes.MsgBurn{Amount: sdk.Coin{Denom: w.denomOf(a.C, a.S), Amount: math.NewInt(int64(a.Amt))}, Metadata: md}
	case "ChangeAdmin":
		return &tftypes.MsgChangeAdmin{Denom: w.denomOf(a.C, a.S), NewAdmin: w.addrOf(a.New), Metadata: md}
	case "SetMetadata":
		d := w.denomOf(a.C, a.S)
		return &tftypes.MsgSetDenomMetadata{Metadata: md, DenomMetadata: banktypes.Metadata{
			Description: fmt.Sprintf("set by %d", a.As), Base: d, Display: d, Name: fmt.Sprintf("N%d", a.As), Symbol: fmt.Sprintf("SET%d", a.As),
			DenomUnits: []*banktypes.DenomUnit{{Denom: d, Exponent: 0}},
		}}
	}
	panic("unknown action " + act)
}

func TestDriveTokenFactory(t *testing.T) {
	hs, err := drv.LoadHistories()
	if err != nil {
		t.Fatal(err)
	}
	em, err := drv.NewEmitter()
	if err != nil {
		t.Fatal(err)
	}
	defer em.Close()
	t0 := time.Now()
	for _, h := range hs {
		runHistory(t, em, h)
	}
	t.Logf("%d histories in %v", len(hs), time.Since(t0))
}

func runHistory(t *testing.T, em *drv.Emitter, h drv.History) {
	steps := h.Steps
	funds := envFunds()
	subs, nmeta := []int{1, 2}, 1
	grants := [][]int{}
	// "Genesis" is what the generator emits; "Init" is how the recorded trace (and a replay file) names the same step
	if len(steps) > 0 && (steps[0].Act == "Genesis" || steps[0].Act == "Init") {
		var g genesisArgs
		if err := json.Unmarshal(steps[0].Args, &g); err != nil {
			t.Fatal(err)
		}
		funds = g.Funds
		if len(g.Subs) > 0 {
			subs = g.Subs
		}
		if g.NMeta != nil {
			nmeta = *g.NMeta
		}
		if g.Grants != nil {
			grants = g.Grants
		}
		steps = steps[1:]
	}
	if len(funds) != nAcc {
		t.Fatalf("history %d: need %d funds entries", h.H, nAcc)
	}
	for _, k := range subs {
		if _, ok := subClasses[k]; !ok || k == 0 {
			t.Fatalf("history %d: unknown sub-denom class %d", h.H, k)
		}
	}
	for _, p := range grants {
		if len(p) != 2 || p[0] < 1 || p[0] > nAcc || p[1] < 1 || p[1] > nAcc {
			t.Fatalf("history %d: bad grant %v", h.H, p)
		}
	}
	w := newWorld(funds, subs, nmeta, grants)
	defer w.e.Close()
	e := w.e
	// one empty block so that everything genesis does in its first begin/end blockers is behind us
	if _, err := e.DeliverBlock(nil); err != nil {
		t.Fatalf("history %d: first block: %v", h.H, err)
	}
	w.supply0 = e.Supply(env.BondDenom)
	w.nativeMD, _ = e.App.BankKeeper.GetDenomMetaData(e.Ctx(), env.BondDenom)
	em.Emit(map[string]any{"h": h.H, "i": 0, "act": "Init", "args": genesisArgs{Funds: funds, Subs: subs, NMeta: &nmeta, Grants: grants}, "obs": w.observe(),
		"fee": small(w.fee.Amount), "feedenom": w.fee.Denom})
	for i, st := range steps {
		var a args
		if err := json.Unmarshal(st.Args, &a); err != nil {
			t.Fatal(err)
		}
		ev := map[string]any{"h": h.H, "i": i + 1, "act": st.Act, "args": a, "res": "fail", "cs": "", "code": 0,
			"nd": map[string]int{"c": 0, "s": 0}, "log": ""}
		blockfail := func(err error) {
			ev["res"], ev["cs"], ev["code"] = "blockfail", "block", -1
			ev["log"] = firstLine(err.Error())
			ev["obs"] = map[string]any{"den": []any{}, "funds": []int{}, "nden": -1, "x": []int{}, "grants": [][]int{}}
			em.Emit(ev)
		}
		if st.Act == "Reimport" {
			// genesis round trip of the whole application: ExportAppStateAndValidators, InitChain of a fresh app on
			// a fresh database (every module's ExportGenesis -> InitGenesis), one block to commit the import
			if err := e.Reimport(); err != nil {
				blockfail(err)
				return
			}
			if _, err := e.DeliverBlock(nil); err != nil {
				blockfail(fmt.Errorf("first block after the import: %w", err))
				return
			}
			ev["res"] = "ok"
			ev["obs"] = w.observe()
			em.Emit(ev)
			continue
		}
		if a.Who < 1 || a.Who > nAcc {
			t.Fatalf("history %d step %d: signer %d", h.H, i+1, a.Who)
		}
		msg := w.msgFor(st.Act, a)
		r, err := e.RunAs(e.User(a.Who-1), msg)
		if err != nil {
			// a block-level failure (panic in a blocker, consensus failure): recorded, the history ends here
			blockfail(err)
			return
		}
		ev["cs"], ev["code"] = r.Codespace, int(r.Code)
		if r.Code == 0 {
			ev["res"] = "ok"
			if st.Act == "Create" {
				ev["nd"] = w.createdDenom(r.Data)
			}
		} else {
			ev["log"] = firstLine(r.Log)
		}
		ev["obs"] = w.observe()
		em.Emit(ev)
	}
}

// createdDenom projects MsgCreateDenomResponse.NewTokenDenom on the tracked denoms ({-1,-1} if it is none of them).
func (w *world) createdDenom(data []byte) map[string]int {
	var tmd sdk.TxMsgData
	if err := w.e.App.AppCodec().Unmarshal(data, &tmd); err != nil || len(tmd.MsgResponses) != 1 {
		return map[string]int{"c": -1, "s": -1}
	}
	var resp tftypes.MsgCreateDenomResponse
	if err := resp.Unmarshal(tmd.MsgResponses[0].Value); err != nil {
		return map[string]int{"c": -1, "s": -1}
	}
	if k, ok := w.byName[resp.NewTokenDenom]; ok {
		return map[string]int{"c": k.c, "s": k.s}
	}
	return map[string]int{"c": -1, "s": -1}
}

func firstLine(s string) string {
	if i := strings.IndexByte(s, '\n'); i >= 0 {
		s = s[:i]
	}
	if len(s) > 160 {
		s = s[:160]
	}
	return s
}
