//go:build verif

// Driver for specs/Mempool.tla: executes TLC-generated histories of
// Insert / Remove / Select against the real application mempool
// (app/mempool.DefaultPriorityMempool) and records what it returned.
package mempool

import (
	"context"
	"encoding/json"
	"errors"
	"fmt"
	"sort"
	"testing"

	"cosmossdk.io/log"
	"github.com/cosmos/cosmos-sdk/crypto/keys/secp256k1"
	cryptotypes "github.com/cosmos/cosmos-sdk/crypto/types"
	sdk "github.com/cosmos/cosmos-sdk/types"
	sdkmempool "github.com/cosmos/cosmos-sdk/types/mempool"
	txsigning "github.com/cosmos/cosmos-sdk/types/tx/signing"
	banktypes "github.com/cosmos/cosmos-sdk/x/bank/types"
	palomamempool "github.com/palomachain/paloma/v2/app/mempool"
	consensustypes "github.com/palomachain/paloma/v2/x/consensus/types"
	evmtypes "github.com/palomachain/paloma/v2/x/evm/types"
	schedulertypes "github.com/palomachain/paloma/v2/x/scheduler/types"
	valsettypes "github.com/palomachain/paloma/v2/x/valset/types"
	"google.golang.org/protobuf/proto"
	"verifharness/drv"
)

type txArg struct {
	S int `json:"s"`
	N int `json:"n"`
	C int `json:"c"` // effective class according to the model (not used by the driver)
	K int `json:"k"` // class of the first message
	M int `json:"m"` // number of messages
}

func msgsOf(a txArg) []sdk.Msg {
	ms := []sdk.Msg{classMsg(a.K)}
	for i := 1; i < a.M; i++ {
		ms = append(ms, &banktypes.MsgSend{})
	}
	return ms
}

// testTx is the smallest sdk.Tx + SigVerifiableTx carrying one real message.
type testTx struct {
	arg  txArg
	pub  cryptotypes.PubKey
	msgs []sdk.Msg
}

func (t testTx) GetMsgs() []sdk.Msg                  { return t.msgs }
func (t testTx) GetMsgsV2() ([]proto.Message, error) { return nil, nil }
func (t testTx) GetSigners() ([][]byte, error)       { return [][]byte{t.pub.Address()}, nil }
func (t testTx) GetPubKeys() ([]cryptotypes.PubKey, error) {
	return []cryptotypes.PubKey{t.pub}, nil
}
func (t testTx) GetSignaturesV2() ([]txsigning.SignatureV2, error) {
	return []txsigning.SignatureV2{{PubKey: t.pub, Sequence: uint64(t.arg.N)}}, nil
}

// classMsg returns a message whose type URL puts a single-message tx into class c
// (4 consensus > 3 scheduler > 2 evm > 1 valset > 0 anything else).
func classMsg(c int) sdk.Msg {
	switch c {
	case 4:
		return &consensustypes.MsgAddEvidence{}
	case 3:
		return &schedulertypes.MsgExecuteJob{}
	case 2:
		return &evmtypes.MsgRemoveSmartContractDeploymentRequest{}
	case 1:
		return &valsettypes.MsgKeepAlive{}
	default:
		return &banktypes.MsgSend{}
	}
}

func senders(n int) []cryptotypes.PubKey {
	ks := make([]cryptotypes.PubKey, n)
	for i := range ks {
		ks[i] = secp256k1.GenPrivKeyFromSecret([]byte(fmt.Sprintf("verif-mempool-%d-%d", drv.Seed(), i))).PubKey()
	}
	// rank by the string the pool uses as sender id, so that model sender ids order like it
	sort.Slice(ks, func(i, j int) bool {
		return sdk.AccAddress(ks[i].Address()).String() < sdk.AccAddress(ks[j].Address()).String()
	})
	return ks
}

func TestDriveMempool(t *testing.T) {
	hs, err := drv.LoadHistories()
	if err != nil {
		t.Fatal(err)
	}
	em, err := drv.NewEmitter()
	if err != nil {
		t.Fatal(err)
	}
	defer em.Close()
	keys := senders(8)
	rank := map[string]int{}
	for i, k := range keys {
		rank[sdk.AccAddress(k.Address()).String()] = i + 1
	}
	// priority classes are the real ones: CheckTx priority 0 for "other"
	ctx := sdk.NewContext(nil, cmtHeader(), false, log.NewNopLogger()).WithPriority(0)
	realPrio := palomamempool.NewDefaultTxPriority()
	for _, h := range hs {
		mp := palomamempool.DefaultPriorityMempool()
		for i, st := range h.Steps {
			var a txArg
			if err := json.Unmarshal(st.Args, &a); err != nil {
				t.Fatal(err)
			}
			ev := map[string]any{"h": h.H, "i": i + 1, "act": st.Act, "args": a, "out": []any{}, "res": "ok", "prio": 0}
			switch st.Act {
			case "Insert":
				tx := testTx{arg: a, pub: keys[a.S-1], msgs: msgsOf(a)}
				// record the class rank the real priority function gives (binding of classes)
				ev["prio"] = classRank(realPrio.GetTxPriority(ctx, tx))
				e, _ := drv.Recover(func() error { return mp.Insert(ctx, tx) })
				if e != nil {
					ev["res"] = "err:" + e.Error()
				}
			case "Remove":
				tx := testTx{arg: a, pub: keys[a.S-1], msgs: msgsOf(a)}
				e, _ := drv.Recover(func() error { return mp.Remove(tx) })
				if errors.Is(e, sdkmempool.ErrTxNotFound) {
					ev["res"] = "notfound"
				} else if e != nil {
					ev["res"] = "err:" + e.Error()
				}
			case "Select":
				out := []any{}
				e, _ := drv.Recover(func() error {
					n := 0
					for it := mp.Select(ctx, nil); it != nil; it = it.Next() {
						tx := it.Tx().(testTx)
						out = append(out, tx.arg)
						n++
						if n > 10000 {
							return fmt.Errorf("select does not terminate")
						}
					}
					return nil
				})
				ev["res"] = "select"
				if e != nil {
					ev["res"] = "err:" + e.Error()
				}
				ev["out"] = out
			default:
				t.Fatalf("unknown action %q", st.Act)
			}
			ev["count"] = mp.CountTx()
			em.Emit(ev)
		}
	}
}

// classRank maps the real int64 priority to the model's class rank.
func classRank(p int64) int {
	const max = int64(^uint64(0) >> 1)
	switch p {
	case max:
		return 4
	case max - 1:
		return 3
	case max - 2:
		return 2
	case max - 3:
		return 1
	}
	if p == 0 {
		return 0
	}
	return -1
}

var _ = context.Background
