//go:build verif

package mempool

import cmtproto "github.com/cometbft/cometbft/proto/tendermint/types"

func cmtHeader() cmtproto.Header { return cmtproto.Header{Height: 1} }
