//go:build verif

// Driver for specs/Scheduler.tla: executes TLC-generated histories of Create / Execute requests against the
// full application (E2) with four EVM chains behind x/scheduler (see the world description in the spec).
// Accounts act through really signed MsgCreateJob / MsgExecuteJob (one transaction per block), the contract
// through Paloma's wasm custom-message router (scheduler_msg create_job / execute_job and the legacy
// {job_id,payload} message) without a VM.  The driver has no expectations: it records the result and the
// projection of the job store and of the messages that appeared in the chains' turnstone queues.
package scheduler

import (
	"bytes"
	"crypto/sha256"
	"encoding/base64"
	"encoding/hex"
	"encoding/json"
	"fmt"
	"sort"
	"strings"
	"testing"
	"time"

	errorsmod "cosmossdk.io/errors"
	"cosmossdk.io/store/prefix"
	wasmkeeper "github.com/CosmWasm/wasmd/x/wasm/keeper"
	wasmvmtypes "github.com/CosmWasm/wasmvm/v2/types"
	sdk "github.com/cosmos/cosmos-sdk/types"
	"github.com/ethereum/go-ethereum/common"
	keeperutil "github.com/palomachain/paloma/v2/util/keeper"
	consensustypes "github.com/palomachain/paloma/v2/x/consensus/types"
	evmtypes "github.com/palomachain/paloma/v2/x/evm/types"
	schedulertypes "github.com/palomachain/paloma/v2/x/scheduler/types"
	valsettypes "github.com/palomachain/paloma/v2/x/valset/types"
	"verifharness/drv"
	"verifharness/env"
)

const nAcc = 2 // callers 1..nAcc are accounts, nAcc+1 is the contract

var chainNames = map[int]string{1: "eth-main", 2: "bnb-main", 3: "matic-main", 4: "op-main", 5: "nochain-x"}
var jobNames = map[int]string{0: "Job-Bad", 1: "job-a", 2: "job-b", 3: "job-c"}
var targets = map[int]string{1: "0x00000000000000000000000000000000000000aa", 2: "0x00000000000000000000000000000000000000bb"}
var payloads = map[int]string{0: "c3c3c3", 1: "a1a1a1a1", 2: "b2b2b2b2b2"} // 0 = what a caller supplies

// spellings of a hex payload; what a spelled string DENOTES is decided by go-ethereum's common.FromHex (the decoding
// x/evm uses on HEAD), applied by the driver to the string found in the STORED job record
var spellings = []string{"bare", "0x", "0X", "odd", "upper", "empty"}

func spell(p int, sp string) string {
	b := payloads[p]
	switch sp {
	case "bare":
		return b
	case "0x":
		return "0x" + b
	case "0X":
		return "0X" + b
	case "odd":
		return b[1:]
	case "upper":
		return strings.ToUpper(b)
	case "empty":
		return ""
	}
	panic("unknown spelling " + sp)
}

// unspell recognises which payload id and spelling a stored string is (-1, "?" if none)
func unspell(s string) (int, string) {
	if s == "" {
		return 0, "empty"
	}
	for p := range payloads {
		for _, sp := range spellings {
			if sp != "empty" && spell(p, sp) == s {
				return p, sp
			}
		}
	}
	return -1, "?"
}

// bytesCode names a byte string: p = the bytes of payload p, 100+p = the bytes its odd spelling denotes,
// 1000 = no bytes, -1 = anything else
func bytesCode(b []byte) int {
	if len(b) == 0 {
		return 1000
	}
	for p := range payloads {
		if bytes.Equal(b, common.FromHex(payloads[p])) {
			return p
		}
		if bytes.Equal(b, common.FromHex(payloads[p][1:])) {
			return 100 + p
		}
	}
	return -1
}

type args struct {
	Who     int    `json:"who"`
	As      int    `json:"as"`
	Via     string `json:"via"`
	ID      int    `json:"id"`
	Chain   int    `json:"chain"`
	Target  int    `json:"target"`
	Payload int    `json:"payload"`
	Sp      string `json:"sp"`
	Mod     bool   `json:"mod"`
	Mev     bool   `json:"mev"`
	Pg      int    `json:"pg"`
}

type world struct {
	e        *env.E2
	ew       *env.EvmWorld
	router   wasmkeeper.Messenger
	contract sdk.AccAddress
	seen     map[string]map[uint64]bool // chain -> message ids seen in its turnstone queue
}

func newWorld() *world {
	e := env.NewE2(env.E2Options{Seed: drv.Seed(), Powers: []int64{10, 10, 10}, NumUsers: nAcc})
	ew, err := e.AddEvmChains(
		env.EvmChainSpec{RefID: chainNames[1], MEV: []int{0}, Unsynced: true},
		env.EvmChainSpec{RefID: chainNames[2]},
		env.EvmChainSpec{RefID: chainNames[3], AllNoFee: true},
		env.EvmChainSpec{RefID: chainNames[4], Inactive: true},
	)
	if err != nil {
		panic(err)
	}
	h := sha256.Sum256([]byte("verif-scheduler-contract-K"))
	w := &world{e: e, ew: ew, router: e.WasmRouter(), contract: sdk.AccAddress(h[:]), seen: map[string]map[uint64]bool{}}
	return w
}

func (w *world) addrOf(i int) sdk.AccAddress {
	switch {
	case i >= 1 && i <= nAcc:
		return w.e.User(i - 1).Addr
	case i == nAcc+1:
		return w.contract
	}
	return nil
}

func (w *world) callerIdx(a []byte) int {
	if len(a) == 0 {
		return 0
	}
	for i := 1; i <= nAcc+1; i++ {
		if bytes.Equal(w.addrOf(i), a) {
			return i
		}
	}
	return -1
}

// suffixIdx: whose 32-byte LEFT padded address is s (-1 nobody's)
func (w *world) suffixIdx(s []byte) int {
	if len(s) != 32 {
		return -2
	}
	for i := 1; i <= nAcc+1; i++ {
		a := w.addrOf(i)
		p := make([]byte, 32)
		copy(p[32-len(a):], a)
		if bytes.Equal(p, s) {
			return i
		}
	}
	return -1
}

func revLookup(m map[int]string, v string) int {
	for k, s := range m {
		if strings.EqualFold(s, v) {
			return k
		}
	}
	return -1
}

func (w *world) jobJSON(a args) (def, pay string) {
	def = fmt.Sprintf(`{"abi":"[]","address":"%s"}`, targets[a.Target])
	pay = fmt.Sprintf(`{"hexPayload":"%s"}`, spell(a.Payload, a.Sp))
	return
}

func (w *world) projectJob(key string, j *schedulertypes.Job) map[string]any {
	r := map[string]any{"id": revLookup(jobNames, key), "idf": revLookup(jobNames, j.ID), "owner": w.callerIdx(j.Owner),
		"chain": revLookup(chainNames, j.Routing.ChainReferenceID), "target": -1, "payload": -1, "sp": "?", "den": -1, "mod": j.IsPayloadModifiable, "mev": j.EnforceMEVRelay}
	if key != j.ID {
		r["idf"] = -3
	}
	var d evmtypes.JobDefinition
	if json.Unmarshal(j.Definition, &d) == nil {
		r["target"] = revLookup(targets, d.Address)
	}
	var p evmtypes.JobPayload
	if json.Unmarshal(j.Payload, &p) == nil {
		// which document is stored, and which bytes it denotes under the reference decoding
		r["payload"], r["sp"] = unspell(p.HexPayload)
		r["den"] = bytesCode(common.FromHex(p.HexPayload))
	}
	if j.Routing.ChainType != "evm" {
		r["chain"] = -4
	}
	return r
}

func (w *world) observe() map[string]any {
	e := w.e
	ctx := e.Ctx()
	cdc := e.App.AppCodec()
	st := prefix.NewStore(e.App.SchedulerKeeper.Store(ctx), schedulertypes.KeyPrefix("jobs"))
	keys, all, err := keeperutil.IterAll[*schedulertypes.Job](st, cdc)
	if err != nil {
		panic(err)
	}
	jobs := []map[string]any{}
	for i, j := range all {
		jobs = append(jobs, w.projectJob(string(keys[i]), j))
	}
	sort.SliceStable(jobs, func(i, k int) bool { return jobs[i]["id"].(int) < jobs[k]["id"].(int) })
	added := []map[string]any{}
	removed := 0
	for c := 1; c <= 4; c++ {
		name := chainNames[c]
		msgs, err := e.App.ConsensusKeeper.GetMessagesFromQueue(ctx, consensustypes.Queue(evmtypes.ConsensusTurnstoneMessage, "evm", name), 0)
		if err != nil {
			panic(err)
		}
		if w.seen[name] == nil {
			w.seen[name] = map[uint64]bool{}
		}
		now := map[uint64]bool{}
		sort.SliceStable(msgs, func(i, k int) bool { return msgs[i].GetId() < msgs[k].GetId() })
		for _, m := range msgs {
			now[m.GetId()] = true
			if w.seen[name][m.GetId()] {
				continue
			}
			cm, err := m.ConsensusMsg(cdc)
			if err != nil {
				panic(err)
			}
			mm, ok := cm.(*evmtypes.Message)
			r := map[string]any{"chain": c, "type": fmt.Sprintf("%T", cm), "target": 0, "body": 0, "sfx": 0, "sender": 0, "caddr": 0, "mev": false, "turn": 0, "asg": 0, "mchain": 0, "blen": 0}
			if ok {
				r["mchain"] = revLookup(chainNames, mm.ChainReferenceID)
				if mm.TurnstoneID == w.ew.CompassOf(name) {
					r["turn"] = 1
				}
				if mm.Assignee != "" && mm.AssigneeRemoteAddress != "" {
					r["asg"] = 1
				}
				switch act := mm.Action.(type) {
				case *evmtypes.Message_SubmitLogicCall:
					s := act.SubmitLogicCall
					r["type"] = "slc"
					r["target"] = revLookup(targets, s.HexContractAddress)
					p := s.Payload
					if len(p) >= 32 {
						r["body"] = bytesCode(p[:len(p)-32])
						r["blen"] = len(p) - 32
						r["sfx"] = w.suffixIdx(p[len(p)-32:])
					} else {
						r["body"], r["sfx"] = -2, -2
					}
					r["sender"], r["caddr"] = w.callerIdx(s.SenderAddress), w.callerIdx(s.ContractAddress)
					r["mev"] = s.ExecutionRequirements.EnforceMEVRelay
				case *evmtypes.Message_UpdateValset:
					r["type"] = "valset"
				default:
					r["type"] = fmt.Sprintf("%T", mm.Action)
				}
			}
			added = append(added, r)
		}
		for id := range w.seen[name] {
			if !now[id] {
				removed++
			}
		}
		w.seen[name] = now
	}
	return map[string]any{"jobs": jobs, "added": added, "removed": removed}
}

type outcome struct {
	ok       bool
	cs       string
	code     int
	log      string
	blockErr error
}

func fromErr(err error) outcome {
	if err == nil {
		return outcome{ok: true}
	}
	cs, code, lg := errorsmod.ABCIInfo(err, false)
	return outcome{cs: cs, code: int(code), log: firstLine(lg)}
}

func (w *world) md(a args) valsettypes.MsgMetadata {
	return valsettypes.MsgMetadata{Creator: w.addrOf(a.As).String(), Signers: []string{w.addrOf(a.Who).String()}}
}

func (w *world) runTx(who int, msg ...sdk.Msg) outcome {
	r, err := w.e.RunAs(w.e.User(who-1), msg...)
	if err != nil {
		return outcome{blockErr: err}
	}
	if r.Code == 0 {
		return outcome{ok: true}
	}
	return outcome{cs: r.Codespace, code: int(r.Code), log: firstLine(r.Log)}
}

func (w *world) runWasm(custom string) outcome {
	err, berr := w.e.DispatchAsContract(w.router, w.contract, []byte(custom))
	if berr != nil {
		return outcome{blockErr: berr}
	}
	return fromErr(err)
}

// createMsg / the wasm create_job document for the job an action describes
func (w *world) createMsg(a args) *schedulertypes.MsgCreateJob {
	def, pay := w.jobJSON(a)
	other := w.addrOf(a.Who%nAcc + 1)
	return &schedulertypes.MsgCreateJob{Metadata: w.md(a), Job: &schedulertypes.Job{ID: jobNames[a.ID], Owner: other,
		Routing:    schedulertypes.Routing{ChainType: "evm", ChainReferenceID: chainNames[a.Chain]},
		Definition: []byte(def), Payload: []byte(pay), IsPayloadModifiable: a.Mod, EnforceMEVRelay: a.Mev}}
}

func (w *world) wasmCreate(a args) []byte {
	def, pay := w.jobJSON(a)
	job := map[string]any{"job_id": jobNames[a.ID], "chain_type": "evm", "chain_reference_id": chainNames[a.Chain],
		"definition": def, "payload": pay, "payload_modifiable": a.Mod, "is_mev": a.Mev}
	bz, _ := json.Marshal(map[string]any{"scheduler_msg": map[string]any{"create_job": map[string]any{"job": job}}})
	return bz
}

// discarded runs the messages [CreateJob id, ExecuteJob id] on a state branch that is never committed and then
// delivers an empty block.  Simulate/tx: the application's simulation entry point (gas estimation) on a really
// signed transaction; Simulate/wasm: the contract's two messages dispatched on a cache context that is dropped;
// RolledBack: a delivered transaction with a third message that always fails (execution of an unknown job id).
// Whatever happened inside is recorded in `inner`, the request itself always reports "discarded" unless a delivered
// transaction that should have failed succeeded.
func (w *world) discarded(act string, a args) (outcome, string) {
	e := w.e
	exec := &schedulertypes.MsgExecuteJob{Metadata: w.md(a), JobID: jobNames[a.ID]}
	switch {
	case act == "RolledBack":
		o := w.runTx(a.Who, w.createMsg(a), exec, &schedulertypes.MsgExecuteJob{Metadata: w.md(a), JobID: "job-none"})
		if o.ok {
			return o, "delivered"
		}
		return outcome{cs: "discarded", blockErr: o.blockErr}, firstLine(o.log)
	case a.Via == "tx":
		acc := e.User(a.Who - 1)
		tx := e.SignTx(acc, w.createMsg(a), exec)
		_, _, err := e.App.Simulate(tx)
		inner := "sim ok"
		if err != nil {
			inner = "sim: " + firstLine(err.Error())
		}
		_, berr := e.DeliverBlock(nil) // also re-reads the account's sequence
		return outcome{cs: "discarded", blockErr: berr}, inner
	default:
		ctx := e.Ctx().WithEventManager(sdk.NewEventManager())
		cc, _ := ctx.CacheContext() // never written
		inner := "dropped ok"
		raw, _ := hex.DecodeString(payloads[0])
		x, _ := json.Marshal(map[string]any{"scheduler_msg": map[string]any{"execute_job": map[string]any{"job_id": jobNames[a.ID],
			"sender": w.contract.String(), "payload": base64.StdEncoding.EncodeToString(raw)}}})
		for _, m := range [][]byte{w.wasmCreate(a), x} {
			if _, _, _, err := w.router.DispatchMsg(cc, w.contract, "", wasmvmtypes.CosmosMsg{Custom: m}); err != nil {
				inner = "dropped: " + firstLine(err.Error())
				break
			}
		}
		_, berr := e.DeliverBlock(nil)
		return outcome{cs: "discarded", blockErr: berr}, inner
	}
}

// query asks the scheduler's job query (what clients and the wasm query plugin see)
func (w *world) query(id int) (map[string]any, bool) {
	resp, err := w.e.App.SchedulerKeeper.QueryGetJobByID(w.e.Ctx(), &schedulertypes.QueryGetJobByIDRequest{JobID: jobNames[id]})
	if err != nil || resp == nil || resp.Job == nil {
		return emptyJob(), false
	}
	return w.projectJob(jobNames[id], resp.Job), true
}

func emptyJob() map[string]any {
	return map[string]any{"id": -1, "idf": -1, "owner": 0, "chain": 0, "target": 0, "payload": 0, "sp": "", "den": 0, "mod": false, "mev": false}
}

func (w *world) do(act string, a args) outcome {
	def, pay := w.jobJSON(a)
	switch act {
	case "Create":
		switch a.Via {
		case "tx":
			// Job.Owner in the message names somebody else: the msg server must overwrite it with the creator
			other := w.addrOf(a.Who%nAcc + 1)
			return w.runTx(a.Who, &schedulertypes.MsgCreateJob{Metadata: w.md(a), Job: &schedulertypes.Job{ID: jobNames[a.ID], Owner: other,
				Routing:    schedulertypes.Routing{ChainType: "evm", ChainReferenceID: chainNames[a.Chain]},
				Definition: []byte(def), Payload: []byte(pay), IsPayloadModifiable: a.Mod, EnforceMEVRelay: a.Mev}})
		case "wasm":
			job := map[string]any{"job_id": jobNames[a.ID], "chain_type": "evm", "chain_reference_id": chainNames[a.Chain],
				"definition": def, "payload": pay, "payload_modifiable": a.Mod, "is_mev": a.Mev}
			bz, _ := json.Marshal(map[string]any{"scheduler_msg": map[string]any{"create_job": map[string]any{"job": job}}})
			return w.runWasm(string(bz))
		}
	case "Execute":
		switch a.Via {
		case "tx":
			var p []byte
			switch a.Pg {
			case 1:
				p = []byte(fmt.Sprintf(`{"hexPayload":"%s"}`, spell(0, a.Sp)))
			case 2:
				p = []byte("this is not json")
			}
			return w.runTx(a.Who, &schedulertypes.MsgExecuteJob{Metadata: w.md(a), JobID: jobNames[a.ID], Payload: p})
		case "wasm", "legacy":
			raw, _ := hex.DecodeString(payloads[0])
			m := map[string]any{"job_id": jobNames[a.ID]}
			if a.Pg != 0 {
				m["payload"] = base64.StdEncoding.EncodeToString(raw)
			}
			if a.Via == "legacy" {
				bz, _ := json.Marshal(m)
				return w.runWasm(string(bz))
			}
			m["sender"] = w.addrOf(a.As).String() // ignored by the binding
			bz, _ := json.Marshal(map[string]any{"scheduler_msg": map[string]any{"execute_job": m}})
			return w.runWasm(string(bz))
		}
	}
	panic("unknown action " + act + "/" + a.Via)
}

func TestDriveScheduler(t *testing.T) {
	hs, err := drv.LoadHistories()
	if err != nil {
		t.Fatal(err)
	}
	em, err := drv.NewEmitter()
	if err != nil {
		t.Fatal(err)
	}
	defer em.Close()
	t0 := time.Now()
	for _, h := range hs {
		runHistory(t, em, h)
	}
	t.Logf("%d histories in %v", len(hs), time.Since(t0))
}

func runHistory(t *testing.T, em *drv.Emitter, h drv.History) {
	w := newWorld()
	defer w.e.Close()
	steps := h.Steps
	if len(steps) > 0 && steps[0].Act == "Init" {
		steps = steps[1:]
	}
	em.Emit(map[string]any{"h": h.H, "i": 0, "act": "Init", "obs": w.observe()})
	for i, st := range steps {
		var a args
		if err := json.Unmarshal(st.Args, &a); err != nil {
			t.Fatal(err)
		}
		if a.Sp == "" {
			a.Sp = "bare"
		}
		if st.Act != "Query" && ((a.Via == "tx") != (a.Who >= 1 && a.Who <= nAcc) || w.addrOf(a.Who) == nil || w.addrOf(a.As) == nil) {
			t.Fatalf("history %d step %d: caller %d via %s as %d", h.H, i+1, a.Who, a.Via, a.As)
		}
		ev := map[string]any{"h": h.H, "i": i + 1, "act": st.Act, "args": a, "res": "fail", "cs": "", "code": 0, "log": "", "q": emptyJob(), "inner": ""}
		var o outcome
		override := ""
		switch st.Act {
		case "Simulate", "RolledBack":
			var inner string
			o, inner = w.discarded(st.Act, a)
			ev["inner"] = inner
			if !o.ok {
				override = "discarded"
			}
		case "Query":
			q, found := w.query(a.ID)
			ev["q"] = q
			o = outcome{cs: "query"}
			override = "notfound"
			if found {
				override = "found"
			}
			if _, berr := w.e.DeliverBlock(nil); berr != nil {
				o.blockErr = berr
			}
		default:
			o = w.do(st.Act, a)
		}
		if o.blockErr != nil {
			ev["res"], ev["cs"], ev["code"], ev["log"] = "blockfail", "block", -1, firstLine(o.blockErr.Error())
			ev["obs"] = map[string]any{"jobs": []any{}, "added": []any{}, "removed": -1}
			em.Emit(ev)
			return
		}
		if o.ok {
			ev["res"] = "ok"
		} else {
			ev["cs"], ev["code"], ev["log"] = o.cs, o.code, o.log
		}
		if override != "" {
			ev["res"] = override
		}
		ev["obs"] = w.observe()
		em.Emit(ev)
	}
}

func firstLine(s string) string {
	if i := strings.IndexByte(s, '\n'); i >= 0 {
		s = s[:i]
	}
	if len(s) > 160 {
		s = s[:160]
	}
	return s
}
