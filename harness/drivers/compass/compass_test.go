//go:build verif

// Driver for specs/CompassLifecycle.tla (extra check X01): executes TLC-generated histories of the compass
// (bridge contract) deployment lifecycle against the real evm / consensus / valset / skyway keepers (E1
// environment) and records the projection of the real stores after every step.  No expectations here:
// governance actions go through the evm module's proposal handler, the deploy attempt through the evm module's
// EndBlock, attestations through the consensus msg server (public access / error data by the assignee, evidence
// by every validator: really signed eth transactions with receipts, or error proofs) followed by the consensus
// module's EndBlock, expiry through Keeper.PruneJob, removal through the evm msg server.
package compass

import (
	"encoding/json"
	"fmt"
	"math/big"
	"os"
	"path/filepath"
	"strings"
	"testing"
	"time"

	"cosmossdk.io/log"
	codectypes "github.com/cosmos/cosmos-sdk/codec/types"
	"github.com/cosmos/cosmos-sdk/crypto/keys/secp256k1"
	sdk "github.com/cosmos/cosmos-sdk/types"
	"github.com/ethereum/go-ethereum/accounts/abi"
	"github.com/ethereum/go-ethereum/common"
	ethtypes "github.com/ethereum/go-ethereum/core/types"
	"github.com/ethereum/go-ethereum/crypto"
	"github.com/palomachain/paloma/v2/util/libcons"
	"github.com/palomachain/paloma/v2/x/consensus"
	consensuskeeper "github.com/palomachain/paloma/v2/x/consensus/keeper"
	ct "github.com/palomachain/paloma/v2/x/consensus/types"
	"github.com/palomachain/paloma/v2/x/evm"
	evmkeeper "github.com/palomachain/paloma/v2/x/evm/keeper"
	et "github.com/palomachain/paloma/v2/x/evm/types"
	"github.com/palomachain/paloma/v2/x/skyway"
	skywaykeeper "github.com/palomachain/paloma/v2/x/skyway/keeper"
	st "github.com/palomachain/paloma/v2/x/skyway/types"
	valsettypes "github.com/palomachain/paloma/v2/x/valset/types"
	"verifharness/drv"
	"verifharness/env"
)

const (
	sigPrefix   = "\x19Ethereum Signed Message:\n32"
	gasEstimate = 21000
	feeMgrAddr  = "0x00000000000000000000000000000000000fee00"
	initAddr    = "0x00000000000000000000000000000000000c0de1"
	erc20Addr   = "0x1111111111111111111111111111111111111111"
	skyNonce    = 7
)

var chains = []string{"eth-a", "eth-b"} // model chains 1, 2 (chain-info store order)

func repoDir() string {
	if d := os.Getenv("VERIF_REPO"); d != "" {
		return d
	}
	return "/repo"
}

func queueName(c string) string { return "evm/" + c + "/" + et.ConsensusTurnstoneMessage }

func must(err error) {
	if err != nil {
		panic(err)
	}
}

// capturing logger: the consensus module's EndBlock only logs the error of CheckAndProcessAttestedMessages
type capLogger struct{ errs *[]string }

func (l capLogger) Info(string, ...any)  {}
func (l capLogger) Warn(string, ...any)  {}
func (l capLogger) Debug(string, ...any) {}
func (l capLogger) Error(msg string, kv ...any) {
	if msg != "error while attesting to messages" {
		return
	}
	for i := 0; i+1 < len(kv); i += 2 {
		if k, ok := kv[i].(string); ok && k == "err" {
			*l.errs = append(*l.errs, fmt.Sprint(kv[i+1]))
		}
	}
}
func (l capLogger) With(...any) log.Logger { return l }
func (l capLogger) Impl() any              { return nil }

type world struct {
	e        *env.E1
	abi      abi.ABI
	abiJSON  string
	bytecode []byte
	cmsg     ct.MsgServer
	emsg     et.MsgServer
	cmod     consensus.AppModule
	emod     evm.AppModule
	gov      func(ctx sdk.Context, c any) error
	base     sdk.Context
	idBase   uint64
	user     sdk.AccAddress
}

func meta(a sdk.AccAddress) valsettypes.MsgMetadata {
	return valsettypes.MsgMetadata{Creator: a.String(), Signers: []string{a.String()}}
}

func newWorld() *world {
	e := env.NewE1(env.E1Options{Seed: drv.Seed(), Chains: chains, Powers: []int64{20, 10, 10, 10}, NoActive: true})
	w := &world{e: e}
	abiBytes, err := os.ReadFile(filepath.Join(repoDir(), "x/evm/keeper/testdata/sample-abi.json"))
	must(err)
	bc, err := os.ReadFile(filepath.Join(repoDir(), "x/evm/keeper/testdata/sample-bytecode.out"))
	must(err)
	w.abiJSON = string(abiBytes)
	w.abi, err = abi.JSON(strings.NewReader(w.abiJSON))
	must(err)
	w.bytecode = common.FromHex(strings.TrimSpace(string(bc)))
	// wiring the app does and e1 leaves out (app.go: EvmKeeper.Skyway, attested listener)
	e.Evm.Skyway = e.Skyway
	e.Evm.AddMessageConsensusAttestedListener(e.Metrix)
	w.cmsg = consensuskeeper.NewMsgServerImpl(*e.Consensus)
	w.emsg = evmkeeper.NewMsgServerImpl(*e.Evm)
	w.cmod = consensus.NewAppModule(e.Cdc, *e.Consensus, e.Account, e.Bank)
	w.emod = evm.NewAppModule(e.Cdc, *e.Evm, e.Account, e.Bank)
	h := evm.NewReferenceChainReferenceIDProposalHandler(*e.Evm)
	w.gov = func(ctx sdk.Context, c any) error {
		switch p := c.(type) {
		case *et.DeployNewSmartContractProposal:
			return h(ctx, p)
		case *et.SetFeeManagerAddressProposal:
			return h(ctx, p)
		case *et.AddChainProposal:
			return h(ctx, p)
		case *et.RemoveChainProposal:
			return h(ctx, p)
		}
		return fmt.Errorf("unknown proposal")
	}

	ctx := e.Ctx // height 1000: the skyway end-blocker builds batches every 50 blocks
	must(e.Treasury.SetCommunityFundFee(ctx, "0.01"))
	must(e.Treasury.SetSecurityFee(ctx, "0.01"))
	// compass 1: saved by governance while no chain has a fee manager (nothing is deployed), then running on chain 1
	must(w.gov(ctx, &et.DeployNewSmartContractProposal{Title: "c", Description: "d", AbiJSON: w.abiJSON, BytecodeHex: common.Bytes2Hex(w.contractCode(1))}))
	sc1, err := e.Evm.GetLastCompassContract(ctx)
	must(err)
	must(e.Evm.ActivateChainReferenceID(ctx, chains[0], sc1, initAddr, []byte("compass-"+chains[0]+"-1")))
	snap, err := e.Valset.GetCurrentSnapshot(ctx)
	must(err)
	must(e.Valset.SetSnapshotOnChain(ctx, snap.Id, chains[0]))
	must(e.Evm.SetFeeManagerAddress(ctx, chains[0], feeMgrAddr))
	// one skyway batch with an elected gas estimate on chain 1: what OutgoingTxBatches hands out to relayers
	sh := skywaykeeper.NewSkywayProposalHandler(e.Skyway)
	must(sh(ctx, &st.SetERC20ToDenomProposal{Title: "t", Description: "d", ChainReferenceId: chains[0], Erc20: erc20Addr, Denom: "utoka"}))
	uk := secp256k1.GenPrivKeyFromSecret([]byte(fmt.Sprintf("verif-compass-user-%d", drv.Seed())))
	w.user = sdk.AccAddress(uk.PubKey().Address())
	e.Fund(ctx, w.user, sdk.NewCoins(sdk.NewInt64Coin("utoka", 10)))
	_, err = e.SkywayMsg.SendToRemote(ctx, &st.MsgSendToRemote{EthDest: "0x00000000000000000000000000000000000000aa", Amount: sdk.NewInt64Coin("utoka", 3), ChainReferenceId: chains[0], Metadata: meta(w.user)})
	must(err)
	cc := libcons.New(e.Valset.GetCurrentSnapshot, e.Cdc)
	skyway.EndBlocker(ctx, e.Skyway, cc)
	bs, err := e.Skyway.GetOutgoingTxBatches(ctx)
	must(err)
	if len(bs) != 1 {
		panic(fmt.Sprint("set-up: expected one skyway batch, got ", len(bs)))
	}
	for _, v := range e.Vals {
		_, err := e.SkywayMsg.EstimateBatchGas(ctx, &st.MsgEstimateBatchGas{Metadata: meta(v.Acc), Nonce: bs[0].BatchNonce, TokenContract: bs[0].TokenContract.GetAddress().Hex(), EthSigner: v.EthAddr.Hex(), Estimate: 50000})
		must(err)
	}
	skyway.EndBlocker(ctx, e.Skyway, cc)
	// oracle nonces as after some bridge traffic
	for _, c := range chains {
		_, err := e.SkywayMsg.OverrideNonceProposal(ctx, &st.MsgNonceOverrideProposal{Metadata: valsettypes.MsgMetadata{Creator: e.Opts.Authority}, ChainReferenceId: c, Nonce: skyNonce})
		must(err)
	}
	for _, c := range chains {
		if msgs, _ := e.Consensus.GetMessagesFromQueue(ctx, queueName(c), 0); len(msgs) != 0 {
			panic("world queue not empty")
		}
	}
	ctx = ctx.WithBlockHeight(1001)
	w.base = ctx
	// next message id: learnt on a throw-away branch
	pc, _ := ctx.CacheContext()
	id, err := e.Evm.AddUploadSmartContractToConsensus(pc, chains[0], &et.UploadSmartContract{Id: 1, Bytecode: []byte{1}, Abi: "[]"})
	must(err)
	w.idBase = id - 1
	return w
}

// every contract gets its own byte code (the sample code plus one byte)
func (w *world) contractCode(n int) []byte { return append(append([]byte{}, w.bytecode...), byte(n)) }

// ---------------------------------------------------------------------------------------------
type run struct {
	w      *world
	ctx    sdk.Context
	height int64
	addrs  map[string]int // contract address -> token (order of first appearance in the observed stores)
	uids   map[string]int // compass unique id -> token
	nonce  uint64         // nonce of the next remote transaction (every remote transaction is distinct)
	nsc    int
}

func (w *world) newRun(ctx sdk.Context) *run {
	return &run{w: w, ctx: ctx, height: ctx.BlockHeight(), addrs: map[string]int{}, uids: map[string]int{}, nonce: 1, nsc: 1}
}

func (r *run) addrTok(a string) int {
	if a == "" {
		return 0
	}
	k := strings.ToLower(a)
	if v, ok := r.addrs[k]; ok {
		return v
	}
	r.addrs[k] = len(r.addrs) + 1
	return r.addrs[k]
}

func (r *run) uidTok(b []byte) int {
	if len(b) == 0 {
		return 0
	}
	k := string(b)
	if v, ok := r.uids[k]; ok {
		return v
	}
	r.uids[k] = len(r.uids) + 1
	return r.uids[k]
}

func (r *run) msgs(c string) ([]ct.QueuedSignedMessageI, error) {
	return r.w.e.Consensus.GetMessagesFromQueue(r.ctx, queueName(c), 0)
}

func (r *run) evmMsg(m ct.QueuedSignedMessageI) *et.Message {
	cm, err := m.ConsensusMsg(r.w.e.Cdc)
	must(err)
	return cm.(*et.Message)
}

// what pigeons do between blocks: estimate gas for messages that wait for it (elected by the first half of the
// consensus end-blocker) and sign messages that need signatures
func (r *run) settle() {
	e := r.w.e
	need := false
	for _, c := range chains {
		ms, err := r.msgs(c)
		if err != nil {
			continue
		}
		for _, m := range ms {
			if m.GetRequireGasEstimation() && m.GetGasEstimate() == 0 && len(m.GetGasEstimates()) == 0 {
				need = true
				for _, v := range e.Vals {
					_, err := r.w.cmsg.AddMessageEstimates(r.ctx, &ct.MsgAddMessageGasEstimates{Metadata: meta(v.Acc),
						Estimates: []*ct.MsgAddMessageGasEstimates_GasEstimate{{MsgId: m.GetId(), QueueTypeName: queueName(c), Value: gasEstimate, EstimatedByAddress: v.EthAddr.Hex()}}})
					must(err)
				}
			}
		}
	}
	if need {
		must(e.Consensus.CheckAndProcessEstimatedMessages(r.ctx))
	}
	for _, c := range chains {
		ms, err := r.msgs(c)
		if err != nil {
			continue
		}
		for _, m := range ms {
			if _, ok := r.evmMsg(m).GetAction().(*et.Message_CompassHandover); !ok || len(m.GetSignData()) > 0 {
				continue
			}
			b, err := m.GetBytesToSign(e.Cdc)
			must(err)
			for _, v := range e.Vals {
				sig, err := crypto.Sign(crypto.Keccak256(append([]byte(sigPrefix), b...)), v.EthKey)
				must(err)
				err, _ = env.RunMsg(r.ctx, func(ctx sdk.Context) error {
					_, err := r.w.cmsg.AddMessagesSignatures(ctx, &ct.MsgAddMessagesSignatures{Metadata: meta(v.Acc),
						SignedMessages: []*ct.ConsensusMessageSignature{{Id: m.GetId(), QueueTypeName: queueName(c), Signature: sig, SignedByAddress: v.EthAddr.Hex()}}})
					return err
				})
				must(err)
			}
		}
	}
}

// ---------------------------------------------------------------------------------------------
// reference encoding of the hand-over call (compass ABI shipped with the repository)
type sigT struct{ V, R, S *big.Int }
type valsetT struct {
	ValsetId   *big.Int
	Validators []common.Address
	Powers     []*big.Int
}
type consensusT struct {
	Valset     valsetT
	Signatures []sigT
}
type callArgsT struct {
	LogicContractAddress common.Address
	Payload              []byte
}

func (r *run) handoverData(c string, m ct.QueuedSignedMessageI, liveID uint64) ([]byte, error) {
	msg := r.evmMsg(m)
	ho := msg.GetCompassHandover()
	vr, err := r.w.e.Evm.GetValsetByID(r.ctx, &et.QueryGetValsetByIDRequest{ValsetID: liveID, ChainReferenceID: c})
	if err != nil {
		return nil, err
	}
	cons := consensusT{Valset: valsetT{ValsetId: new(big.Int).SetUint64(vr.Valset.ValsetID)}}
	for _, a := range vr.Valset.Validators {
		cons.Valset.Validators = append(cons.Valset.Validators, common.HexToAddress(a))
	}
	for _, p := range vr.Valset.Powers {
		cons.Valset.Powers = append(cons.Valset.Powers, new(big.Int).SetUint64(p))
	}
	byAddr := map[common.Address][]byte{}
	for _, s := range m.GetSignData() {
		byAddr[common.HexToAddress(s.ExternalAccountAddress)] = s.Signature
	}
	for _, a := range cons.Valset.Validators {
		s, ok := byAddr[a]
		if !ok {
			cons.Signatures = append(cons.Signatures, sigT{big.NewInt(0), big.NewInt(0), big.NewInt(0)})
			continue
		}
		cons.Signatures = append(cons.Signatures, sigT{big.NewInt(int64(s[64]) + 27), new(big.Int).SetBytes(s[:32]), new(big.Int).SetBytes(s[32:64])})
	}
	fw := []callArgsT{}
	for _, f := range ho.ForwardCallArgs {
		fw = append(fw, callArgsT{common.HexToAddress(f.HexContractAddress), f.Payload})
	}
	return r.w.abi.Pack("compass_update_batch", cons, fw, big.NewInt(ho.Deadline), new(big.Int).SetUint64(m.GetGasEstimate()), common.HexToAddress(msg.AssigneeRemoteAddress))
}

func (r *run) chainID(c string) int64 {
	for i, x := range chains {
		if x == c {
			return int64(100 + i)
		}
	}
	return 0
}

// ---------------------------------------------------------------------------------------------
func evKind(cdc interface {
	UnpackAny(*codectypes.Any, any) error
}, m ct.QueuedSignedMessageI) string {
	evs := m.GetEvidence()
	if len(evs) == 0 {
		return "none"
	}
	var h et.Hashable
	if err := cdc.UnpackAny(evs[0].Proof, &h); err != nil {
		return "other"
	}
	switch p := h.(type) {
	case *et.TxExecutedProof:
		if rc, err := p.GetReceipt(); err == nil && rc.Status == ethtypes.ReceiptStatusSuccessful {
			return "ok"
		}
		return "txfail"
	case *et.SmartContractExecutionErrorProof:
		return "err"
	}
	return "other"
}

func (r *run) observe() map[string]any {
	e := r.w.e
	ctx := r.ctx
	o := map[string]any{}
	last := 0
	if sc, err := e.Evm.GetLastCompassContract(ctx); err == nil && sc != nil {
		last = int(sc.Id)
	}
	o["last"] = last
	deps, err := e.Evm.AllSmartContractsDeployments(ctx)
	must(err)
	cs := []any{}
	for _, c := range chains {
		co := map[string]any{"ex": false, "fee": false, "active": 0, "addr": 0, "uid": 0, "status": "", "sync": true}
		ci, err := e.Evm.GetChainInfo(ctx, c)
		if err == nil {
			co["ex"] = true
			co["fee"] = ci.FeeManagerAddr != ""
			co["active"] = int(ci.ActiveSmartContractID)
			co["addr"] = r.addrTok(ci.SmartContractAddr)
			co["uid"] = r.uidTok(ci.SmartContractUniqueID)
			co["status"] = strings.ToLower(ci.Status.String())
			co["sync"] = e.Skyway.GetLatestCompassID(ctx, c) == string(ci.SmartContractUniqueID)
		}
		_, serr := e.Valset.GetLatestSnapshotOnChain(ctx, c)
		co["snap"] = serr == nil
		dl := []any{}
		for _, d := range deps {
			if d.ChainReferenceID != c {
				continue
			}
			s := "other"
			switch d.Status {
			case et.SmartContractDeployment_IN_FLIGHT:
				s = "inflight"
			case et.SmartContractDeployment_WAITING_FOR_ERC20_OWNERSHIP_TRANSFER:
				s = "waiting"
			}
			dl = append(dl, map[string]any{"id": int(d.SmartContractID), "st": s, "addr": r.addrTok(d.NewSmartContractAddress), "uid": r.uidTok(d.UniqueID)})
		}
		co["deps"] = dl
		ql := []any{}
		if ms, err := r.msgs(c); err == nil {
			for _, m := range ms {
				msg := r.evmMsg(m)
				q := map[string]any{"mid": int(int64(m.GetId()) - int64(r.w.idBase)), "kind": "other", "id": 0, "retries": 0, "addr": 0, "ev": evKind(e.Cdc, m)}
				switch a := msg.GetAction().(type) {
				case *et.Message_UploadSmartContract:
					q["kind"], q["id"], q["retries"] = "upload", int(a.UploadSmartContract.Id), int(a.UploadSmartContract.Retries)
				case *et.Message_CompassHandover:
					q["kind"], q["id"] = "handover", int(a.CompassHandover.Id)
					if n := len(a.CompassHandover.ForwardCallArgs); n > 0 {
						if p := a.CompassHandover.ForwardCallArgs[n-1].Payload; len(p) >= 36 {
							q["addr"] = r.addrTok(common.BytesToAddress(p[4:36]).Hex())
						}
					}
				}
				ql = append(ql, q)
			}
		}
		co["queue"] = ql
		sky := -1
		if n, err := e.Skyway.GetLastObservedSkywayNonce(ctx, c); err == nil {
			sky = int(n)
		}
		co["sky"] = sky
		relay := -1
		func() {
			defer func() { recover() }()
			if rs, err := e.Skyway.OutgoingTxBatches(ctx, &st.QueryOutgoingTxBatchesRequest{ChainReferenceId: c}); err == nil {
				relay = len(rs.Batches)
			}
		}()
		co["relay"] = relay
		cs = append(cs, co)
	}
	o["chains"] = cs
	return o
}

// ---------------------------------------------------------------------------------------------
type args struct {
	C  int `json:"c"`
	K  int `json:"k"`
	ID int `json:"id"`
}

func (r *run) step(s drv.Step) (res string, extra map[string]any) {
	var a args
	if err := json.Unmarshal(s.Args, &a); err != nil {
		panic(err)
	}
	e := r.w.e
	extra = map[string]any{"err": ""}
	chain := ""
	if a.C >= 1 && a.C <= len(chains) {
		chain = chains[a.C-1]
	}
	govRes := func(p any) string {
		err, _ := env.RunMsg(r.ctx, func(ctx sdk.Context) error { return r.w.gov(ctx, p) })
		if err != nil {
			extra["err"] = err.Error()
			return "fail"
		}
		return "ok"
	}
	switch {
	case s.Act == "NewCompass":
		r.nsc++
		res = govRes(&et.DeployNewSmartContractProposal{Title: "c", Description: "d", AbiJSON: r.w.abiJSON, BytecodeHex: common.Bytes2Hex(r.w.contractCode(r.nsc))})
	case s.Act == "SetFeeManager":
		res = govRes(&et.SetFeeManagerAddressProposal{Title: "f", Summary: "s", ChainReferenceID: chain, FeeManagerAddress: feeMgrAddr})
	case s.Act == "AddChain":
		res = govRes(&et.AddChainProposal{Title: "a", Description: "d", ChainReferenceID: chain, ChainID: uint64(r.chainID(chain)), BlockHeight: 123, BlockHashAtHeight: "0x1234", MinOnChainBalance: "55"})
	case s.Act == "RemoveChain":
		res = govRes(&et.RemoveChainProposal{Title: "r", Description: "d", ChainReferenceID: chain})
	case s.Act == "EndBlockTryDeploy":
		err, _ := drv.Recover(func() error { return r.w.emod.EndBlock(r.ctx) })
		res = "eb"
		if err != nil {
			extra["err"] = err.Error()
			res = "fail"
		}
	case s.Act == "RemoveDeployment":
		err, _ := env.RunMsg(r.ctx, func(ctx sdk.Context) error {
			_, err := r.w.emsg.RemoveSmartContractDeployment(ctx, &et.MsgRemoveSmartContractDeploymentRequest{SmartContractID: uint64(a.ID), ChainReferenceID: chain, Metadata: meta(r.w.user)})
			return err
		})
		res = "ok"
		if err != nil {
			extra["err"] = err.Error()
			res = "fail"
		}
	case s.Act == "PruneMessage":
		res = "fail"
		ms, err := r.msgs(chain)
		if err == nil && len(ms) > 0 {
			err, _ = drv.Recover(func() error { return e.Consensus.PruneJob(r.ctx, queueName(chain), ms[0].GetId()) })
			if err == nil {
				res = "ok"
			}
		}
		if err != nil {
			extra["err"] = err.Error()
		}
	case strings.HasPrefix(s.Act, "Attest"):
		res = r.attest(s.Act, chain, a.K, extra)
	default:
		panic("unknown action " + s.Act)
	}
	// next block
	r.height++
	r.ctx = r.ctx.WithBlockHeight(r.height).WithBlockTime(r.ctx.BlockTime().Add(60 * time.Second))
	r.settle()
	return res, extra
}

// attest: quorum evidence of the requested kind for the k-th message of the chain's queue, then the consensus end-blocker
func (r *run) attest(act, chain string, k int, extra map[string]any) string {
	e := r.w.e
	ms, err := r.msgs(chain)
	if err != nil || k < 1 || k > len(ms) {
		extra["err"] = "no such message"
		return "nomsg"
	}
	m := ms[k-1]
	msg := r.evmMsg(m)
	qn := queueName(chain)
	rel := e.Vals[0]
	for _, x := range e.Vals {
		if x.Val.String() == msg.Assignee {
			rel = x
		}
	}
	var proof *codectypes.Any
	if strings.HasSuffix(act, "Err") {
		p, err := codectypes.NewAnyWithValue(&et.SmartContractExecutionErrorProof{ErrorMessage: "execution reverted"})
		must(err)
		proof = p
		env.RunMsg(r.ctx, func(ctx sdk.Context) error {
			_, err := r.w.cmsg.SetErrorData(ctx, &ct.MsgSetErrorData{MessageID: m.GetId(), QueueTypeName: qn, Data: []byte("execution reverted"), Metadata: meta(rel.Acc)})
			return err
		})
	} else {
		var liveID uint64
		if live, err := e.Valset.GetLatestSnapshotOnChain(r.ctx, chain); err == nil {
			liveID = live.Id
		}
		cid := big.NewInt(r.chainID(chain))
		inner := &ethtypes.DynamicFeeTx{ChainID: cid, Nonce: r.nonce, GasTipCap: big.NewInt(1), GasFeeCap: big.NewInt(100), Gas: 1_000_000}
		r.nonce++
		switch a := msg.GetAction().(type) {
		case *et.Message_UploadSmartContract:
			inner.Data = append(append([]byte{}, a.UploadSmartContract.Bytecode...), a.UploadSmartContract.ConstructorInput...)
		case *et.Message_CompassHandover:
			data, err := r.handoverData(chain, m, liveID)
			if err != nil {
				extra["err"] = "nobuild: " + err.Error()
				return "nobuild"
			}
			to := common.HexToAddress(initAddr)
			if ci, err := e.Evm.GetChainInfo(r.ctx, chain); err == nil && ci.SmartContractAddr != "" {
				to = common.HexToAddress(ci.SmartContractAddr)
			}
			inner.To, inner.Data = &to, data
		default:
			return "nomsg"
		}
		tx, err := ethtypes.SignNewTx(e.Vals[0].EthKey, ethtypes.NewLondonSigner(cid), inner)
		must(err)
		raw, err := tx.MarshalBinary()
		must(err)
		rc := &ethtypes.Receipt{Type: tx.Type(), Status: ethtypes.ReceiptStatusFailed, CumulativeGasUsed: 21000, Logs: []*ethtypes.Log{}}
		if strings.HasSuffix(act, "Ok") {
			rc.Status = ethtypes.ReceiptStatusSuccessful
		}
		rcb, err := rc.MarshalBinary()
		must(err)
		p, err := codectypes.NewAnyWithValue(&et.TxExecutedProof{SerializedTX: raw, SerializedReceipt: rcb})
		must(err)
		proof = p
		env.RunMsg(r.ctx, func(ctx sdk.Context) error {
			_, err := r.w.cmsg.SetPublicAccessData(ctx, &ct.MsgSetPublicAccessData{MessageID: m.GetId(), QueueTypeName: qn, Data: tx.Hash().Bytes(), ValsetID: liveID, Metadata: meta(rel.Acc)})
			return err
		})
	}
	for _, v := range e.Vals {
		err, _ := env.RunMsg(r.ctx, func(ctx sdk.Context) error {
			_, err := r.w.cmsg.AddEvidence(ctx, &ct.MsgAddEvidence{Proof: proof, MessageID: m.GetId(), QueueTypeName: qn, Metadata: meta(v.Acc)})
			return err
		})
		if err != nil {
			extra["err"] = "evidence: " + err.Error()
			return "noevidence"
		}
	}
	errs := []string{}
	var pan any
	// the attestation pass's error is read from the keeper on a discarded branch, not from a log line
	func() {
		defer func() { _ = recover() }()
		probe, _ := r.ctx.CacheContext()
		_ = r.w.e.Consensus.CheckAndProcessEstimatedMessages(probe)
		if err := r.w.e.Consensus.CheckAndProcessAttestedMessages(probe); err != nil {
			errs = append(errs, err.Error())
		}
	}()
	func() {
		defer func() { pan = recover() }()
		must(r.w.cmod.EndBlock(r.ctx))
	}()
	if pan != nil {
		extra["err"] = fmt.Sprintf("panic: %v", pan)
		return "panic"
	}
	if len(errs) > 0 {
		extra["err"] = strings.Join(errs, " | ")
		return "err"
	}
	return "ok"
}

func TestDriveCompass(t *testing.T) {
	hs, err := drv.LoadHistories()
	if err != nil {
		t.Fatal(err)
	}
	em, err := drv.NewEmitter()
	if err != nil {
		t.Fatal(err)
	}
	defer em.Close()
	w := newWorld()
	for _, h := range hs {
		cctx, _ := w.base.CacheContext() // branch of the prepared world, never written back
		r := w.newRun(cctx.WithBlockHeight(w.base.BlockHeight() + 1))
		r.height = r.ctx.BlockHeight()
		em.Emit(map[string]any{"h": h.H, "i": 0, "act": "Init", "obs": r.observe()})
		steps := []drv.Step{}
		for _, s := range h.Steps {
			if s.Act != "Init" { // replay files list the driver's own Init event as a step
				steps = append(steps, s)
			}
		}
		for i, s := range steps {
			res, extra := r.step(s)
			ev := map[string]any{"h": h.H, "i": i + 1, "act": s.Act, "args": json.RawMessage(s.Args), "res": res, "obs": r.observe()}
			for k, v := range extra {
				ev[k] = v
			}
			em.Emit(ev)
		}
	}
}
