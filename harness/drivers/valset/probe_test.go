//go:build verif

package valset

import (
	"fmt"
	"testing"
	"time"

	sdk "github.com/cosmos/cosmos-sdk/types"
	slashingkeeper "github.com/cosmos/cosmos-sdk/x/slashing/keeper"
	slashingtypes "github.com/cosmos/cosmos-sdk/x/slashing/types"
	"github.com/palomachain/paloma/v2/x/valset"
	valsetkeeper "github.com/palomachain/paloma/v2/x/valset/keeper"
	vt "github.com/palomachain/paloma/v2/x/valset/types"
	"verifharness/env"
)

func TestProbe(t *testing.T) {
	t0 := time.Now()
	addrs := [][]byte{}
	for i := 0; i < 5; i++ {
		a := make([]byte, 20)
		a[0] = byte(i + 1)
		for j := 1; j < 20; j++ {
			a[j] = byte(0x40 + j)
		}
		addrs = append(addrs, a)
	}
	addrs[2][5] = 0x2c
	e := env.NewE1(env.E1Options{Seed: 1, Chains: []string{"eth-a", "eth-b"}, Powers: []int64{10, 10, 10, 10, 10}, ValAddrs: addrs})
	fmt.Println("newE1", time.Since(t0))
	am := valset.NewAppModule(e.Cdc, *e.Valset, e.Account, e.Bank)
	ms := valsetkeeper.NewMsgServerImpl(*e.Valset)
	sms := slashingkeeper.NewMsgServerImpl(e.Slashing)
	ctx, _ := e.Ctx.CacheContext()
	base := time.Date(2024, 1, 1, 0, 0, 0, 0, time.UTC)
	t0 = time.Now()
	show := func(h int64) {
		s := fmt.Sprintf("h=%d", h)
		for _, v := range e.Vals {
			val, _ := e.Staking.GetValidator(ctx, v.Val)
			ka, err := e.Valset.ValidatorKeepAliveData(ctx, v.Val)
			au := int64(0)
			if err == nil {
				au = ka.AliveUntilBlockHeight
			}
			cons, _ := val.GetConsAddr()
			si, err := e.Slashing.GetValidatorSigningInfo(ctx, cons)
			until := int64(-1)
			if err == nil {
				until = si.JailedUntil.Unix() - base.Unix()
			}
			s += fmt.Sprintf(" [%v %v au=%d until=%d]", val.Jailed, val.Status, au, until)
		}
		fmt.Println(s)
	}
	for h := int64(1); h <= 2200; h++ {
		ctx = ctx.WithBlockHeight(h).WithBlockTime(base.Add(time.Duration(2*h) * time.Second))
		if err := am.BeginBlock(ctx); err != nil {
			t.Fatal(err)
		}
		if h == 5 {
			for i, v := range e.Vals[:4] {
				_, err := ms.KeepAlive(ctx, &vt.MsgKeepAlive{PigeonVersion: "v1.12.0", Metadata: vt.MsgMetadata{Creator: v.Acc.String(), Signers: []string{v.Acc.String()}}})
				fmt.Println("keepalive", i, err)
			}
			_, err := ms.KeepAlive(ctx, &vt.MsgKeepAlive{PigeonVersion: "v1.10.0", Metadata: vt.MsgMetadata{Creator: e.Vals[4].Acc.String()}})
			fmt.Println("keepalive old", err)
		}
		if h == 100 || h == 2100 {
			_, err := sms.Unjail(ctx, &slashingtypes.MsgUnjail{ValidatorAddr: e.Vals[4].Val.String()})
			fmt.Println("unjail", h, err)
		}
		if _, err := e.Staking.EndBlocker(ctx); err != nil {
			t.Fatal(err)
		}
		if err := am.EndBlock(ctx); err != nil {
			t.Fatal(err)
		}
		if h == 1 || h == 59 || h == 60 || h == 61 || h == 100 || h == 101 || h == 130 || h == 131 || h == 140 || h%500 == 0 || h == 2010 || h == 2020 || h == 2100 || h == 2101 {
			show(h)
		}
	}
	fmt.Println("blocks", time.Since(t0))
	snap, _ := e.Valset.GetCurrentSnapshot(ctx)
	fmt.Println("snap", snap.Id, len(snap.Validators))
	_ = sdk.AccAddress{}
}
