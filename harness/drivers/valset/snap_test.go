//go:build verif

package valset

import (
	"encoding/json"
	"fmt"
	"strings"
	"testing"
	"time"

	sdk "github.com/cosmos/cosmos-sdk/types"
	stakingtypes "github.com/cosmos/cosmos-sdk/x/staking/types"
	"github.com/palomachain/paloma/v2/util/eventbus"
	evmtypes "github.com/palomachain/paloma/v2/x/evm/types"
	valsettypes "github.com/palomachain/paloma/v2/x/valset/types"
	"verifharness/drv"
	"verifharness/env"
)

const (
	snapMaxVals = 3
	snapUnbond  = 1000 * time.Second
)

type snapArgs struct {
	Stakes []int64 `json:"stakes"`
	ID     int     `json:"id"`
	C      int     `json:"c"`
	Force  bool    `json:"force"`
	V      int     `json:"v"`
	Cs     []int   `json:"cs"`
	A      int64   `json:"a"`
	Dt     int64   `json:"dt"`
}

type snapRun struct {
	w      *stakeWorld
	ctx    sdk.Context
	now    int64
	height int64
}

var snapWorlds = map[string]*stakeWorld{}

func snapWorld(stakes []int64) *stakeWorld {
	key := fmt.Sprint(stakes)
	if w, ok := snapWorlds[key]; ok {
		return w
	}
	w := newStakeWorld(env.E1Options{Seed: drv.Seed(), Chains: chainNames, NoActive: true, Powers: stakes,
		ValAddrs: orderedAddrs(len(stakes), drv.Seed())}, snapMaxVals, snapUnbond, 0)
	// several worlds live in this process: the skyway keeper of the newest one is the (package-global) subscriber of
	// the chain-activation event and would be run on another world's stores; its reaction is not part of this subsystem
	eventbus.EVMActivatedChain().Unsubscribe("skyway-keeper")
	snapWorlds[key] = w
	return w
}

func (r *snapRun) chainIdx(name string) int {
	for i, c := range chainNames {
		if c == name {
			return i + 1
		}
	}
	return 0
}

func (r *snapRun) valByEth(addr string) int {
	for i, v := range r.w.e.Vals {
		if strings.EqualFold(v.EthAddr.Hex(), addr) {
			return i + 1
		}
	}
	return 0
}

func (r *snapRun) valByAddr(a sdk.ValAddress) int {
	for i, v := range r.w.e.Vals {
		if v.Val.Equals(a) {
			return i + 1
		}
	}
	return 0
}

func splitUnits(x interface{ String() string }, q, rem *int) {
	// tokens -> (units, remainder); values are small in this family
	var n int64
	fmt.Sscan(x.String(), &n)
	*q = int(n / unit)
	*rem = int(n % unit)
}

func (r *snapRun) snapObs(s *valsettypes.Snapshot) map[string]any {
	vals := []any{}
	for _, v := range s.Validators {
		accts := map[int]bool{}
		for _, ci := range v.ExternalChainInfos {
			if strings.ToLower(ci.ChainType) == "evm" {
				accts[r.chainIdx(ci.ChainReferenceID)] = true
			}
		}
		var q, rem int
		splitUnits(v.ShareCount, &q, &rem)
		vals = append(vals, map[string]any{"v": r.valByAddr(v.Address), "share": q, "rem": rem, "accts": sortedInts(accts), "state": int(v.State)})
	}
	var tq, trem int
	splitUnits(s.TotalShares, &tq, &trem)
	chains := []int{}
	for _, c := range s.Chains {
		chains = append(chains, r.chainIdx(c))
	}
	return map[string]any{"id": int(s.Id), "vals": vals, "total": tq, "trem": trem, "chains": chains, "at": int(s.CreatedAt.Unix() - r.w.base.Unix())}
}

func (r *snapRun) observe() map[string]any {
	e := r.w.e
	ctx := r.ctx
	o := map[string]any{}
	jailed, status, stake, rem := r.w.stakingObs(ctx)
	o["jailed"], o["status"], o["stake"], o["rem"] = jailed, status, stake, rem
	accts := []any{}
	for _, v := range e.Vals {
		infos, err := e.Valset.GetValidatorChainInfos(ctx, v.Val)
		if err != nil {
			panic(err)
		}
		m := map[int]bool{}
		for _, ci := range infos {
			m[r.chainIdx(ci.ChainReferenceID)] = true
		}
		accts = append(accts, sortedInts(m))
	}
	o["accts"] = accts
	act := map[int]bool{}
	for _, c := range e.Evm.GetActiveChainNames(ctx) {
		act[r.chainIdx(c)] = true
	}
	o["active"] = sortedInts(act)
	cur, err := e.Valset.GetCurrentSnapshot(ctx)
	if err != nil {
		panic(err)
	}
	curID := 0
	if cur != nil {
		curID = int(cur.Id)
	}
	o["cur"] = curID
	snaps := []any{}
	miss := 0
	for id := uint64(1); miss < 3; id++ { // every id ever issued, probing a little beyond the last one found
		s, err := e.Valset.FindSnapshotByID(ctx, id)
		if err != nil || s == nil {
			miss++
			continue
		}
		miss = 0
		snaps = append(snaps, r.snapObs(s))
	}
	o["snaps"] = snaps
	queue := []any{}
	for ci, c := range chainNames {
		msgs, err := e.Consensus.GetMessagesFromQueue(ctx, turnstoneQueue(c), 0)
		if err != nil {
			panic(err)
		}
		for _, m := range msgs {
			cm, err := m.ConsensusMsg(e.Cdc)
			if err != nil {
				panic(err)
			}
			em, ok := cm.(*evmtypes.Message)
			if !ok {
				continue
			}
			uv, ok := em.GetAction().(*evmtypes.Message_UpdateValset)
			if !ok {
				continue
			}
			vs := uv.UpdateValset.Valset
			vals := []any{}
			for i, a := range vs.Validators {
				p := vs.Powers[i]
				vals = append(vals, map[string]any{"v": r.valByEth(a), "hi": int(p >> 16), "lo": int(p & 0xffff), "p": fmt.Sprint(p)})
			}
			queue = append(queue, map[string]any{"c": ci + 1, "id": int(vs.ValsetID), "mid": int(m.GetId()), "vals": vals})
		}
	}
	o["queue"] = queue
	o["now"] = int(r.now)
	return o
}

func (r *snapRun) advance(dt int64) {
	r.now += dt
	r.height++
	r.ctx = r.ctx.WithBlockHeight(r.height).WithBlockTime(r.w.base.Add(time.Duration(r.now) * time.Second))
}

func (r *snapRun) step(s drv.Step) (res string, err error) {
	var a snapArgs
	mustArgs(s, &a)
	e := r.w.e
	switch s.Act {
	case "Build":
		var snap *valsettypes.Snapshot
		err, _ = drv.Recover(func() error { var e2 error; snap, e2 = e.Valset.TriggerSnapshotBuild(r.ctx); return e2 })
		if err != nil {
			return "fail", err
		}
		if snap == nil {
			return "noop", nil
		}
		return "ok", nil
	case "SetOnChain":
		err, _ = env.RunMsg(r.ctx, func(c sdk.Context) error { return e.Valset.SetSnapshotOnChain(c, uint64(a.ID), chainNames[a.C-1]) })
	case "Publish":
		cur, e2 := e.Valset.GetCurrentSnapshot(r.ctx)
		if e2 != nil || cur == nil {
			return "fail", fmt.Errorf("no current snapshot: %v", e2)
		}
		err, _ = drv.Recover(func() error { return e.Evm.PublishSnapshotToAllChains(r.ctx, cur, a.Force) })
	case "Register":
		v := e.Vals[a.V-1]
		infos := []*valsettypes.ExternalChainInfo{}
		for _, c := range a.Cs {
			infos = append(infos, &valsettypes.ExternalChainInfo{ChainType: "evm", ChainReferenceID: chainNames[c-1], Address: v.EthAddr.Hex(), Pubkey: v.EthAddr.Bytes()})
		}
		err, _ = env.RunMsg(r.ctx, func(c sdk.Context) error { return e.Valset.AddExternalChainInfo(c, v.Val, infos) })
	case "Activate":
		c := chainNames[a.C-1]
		err, _ = env.RunMsg(r.ctx, func(cc sdk.Context) error {
			return e.Evm.ActivateChainReferenceID(cc, c, &evmtypes.SmartContract{Id: 1}, fmt.Sprintf("0x%040x", 0xc0de00+a.C), []byte("compass-"+c))
		})
	case "Delegate":
		err, _ = env.RunMsg(r.ctx, func(c sdk.Context) error {
			_, err := r.w.stk.Delegate(c, &stakingtypes.MsgDelegate{DelegatorAddress: r.w.delegator.String(), ValidatorAddress: e.Vals[a.V-1].Val.String(),
				Amount: sdk.NewInt64Coin(env.BondDenom, a.A*unit)})
			return err
		})
	case "Undelegate":
		err, _ = env.RunMsg(r.ctx, func(c sdk.Context) error {
			_, err := r.w.stk.Undelegate(c, &stakingtypes.MsgUndelegate{DelegatorAddress: r.w.delegator.String(), ValidatorAddress: e.Vals[a.V-1].Val.String(),
				Amount: sdk.NewInt64Coin(env.BondDenom, a.A*unit)})
			return err
		})
	case "JailF":
		val, e2 := e.Staking.GetValidator(r.ctx, e.Vals[a.V-1].Val)
		if e2 != nil {
			panic(e2)
		}
		if val.Jailed {
			return "fail", fmt.Errorf("already jailed (environment action not applicable)")
		}
		err, _ = drv.Recover(func() error { return e.Slashing.Jail(r.ctx, r.w.consAddr(r.ctx, a.V-1)) })
	case "Unjail":
		err = r.w.unjail(r.ctx, a.V-1)
	case "StakingEB":
		r.advance(a.Dt)
		_, err = e.Staking.EndBlocker(r.ctx)
		if err != nil {
			panic(err)
		}
	default:
		panic("unknown action " + s.Act)
	}
	return resOf(err), err
}

func TestDriveSnap(t *testing.T) {
	hs, err := drv.LoadHistories()
	if err != nil {
		t.Fatal(err)
	}
	em, err := drv.NewEmitter()
	if err != nil {
		t.Fatal(err)
	}
	defer em.Close()
	for _, h := range hs {
		if len(h.Steps) == 0 || h.Steps[0].Act != "InitS" {
			t.Fatalf("history %d does not start with InitS", h.H)
		}
		var ia snapArgs
		mustArgs(h.Steps[0], &ia)
		w := snapWorld(ia.Stakes)
		cctx, _ := w.e.Ctx.CacheContext()
		r := &snapRun{w: w, ctx: cctx, height: w.e.Ctx.BlockHeight()}
		em.Emit(map[string]any{"h": h.H, "i": 0, "act": "InitS", "args": json.RawMessage(h.Steps[0].Args), "res": "init", "err": "", "obs": r.observe(),
			"maxvals": snapMaxVals, "unbond": int(snapUnbond / time.Second), "unit": unit, "nchains": len(chainNames)})
		for i, s := range h.Steps[1:] {
			res, err := r.step(s)
			em.Emit(map[string]any{"h": h.H, "i": i + 1, "act": s.Act, "args": json.RawMessage(s.Args), "res": res, "err": errStr(err), "obs": r.observe()})
		}
	}
}
