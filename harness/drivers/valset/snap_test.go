//go:build verif

package valset

import (
	"crypto/sha256"
	"encoding/json"
	"fmt"
	"math/big"
	"strings"
	"testing"
	"time"

	sdk "github.com/cosmos/cosmos-sdk/types"
	stakingtypes "github.com/cosmos/cosmos-sdk/x/staking/types"
	gethcommon "github.com/ethereum/go-ethereum/common"
	"github.com/ethereum/go-ethereum/crypto"
	"github.com/palomachain/paloma/v2/util/eventbus"
	evmtypes "github.com/palomachain/paloma/v2/x/evm/types"
	valsettypes "github.com/palomachain/paloma/v2/x/valset/types"
	"verifharness/drv"
	"verifharness/env"
)

const (
	snapMaxVals = 3
	snapUnbond  = 1000 * time.Second
)

type snapArgs struct {
	Stakes []int64 `json:"stakes"`
	ID     int     `json:"id"`
	C      int     `json:"c"`
	Force  bool    `json:"force"`
	V      int     `json:"v"`
	Cs     []int   `json:"cs"`
	A      int64   `json:"a"`
	Dt     int64   `json:"dt"`
	Reg    string  `json:"reg"`  // registration profile of the world: "all" (default) / "first" (first chain only)
	Mode   string  `json:"mode"` // Rotate: "key" / "trait"
	Bal    int64   `json:"bal"`
}

const maxKeyGen = 8

type snapRun struct {
	w      *stakeWorld
	ctx    sdk.Context
	now    int64
	height int64
	key    []int // key generation the driver registers for each validator (0 = the key of the world)
	ntr    []int // number of traits the driver registers for each validator
}

// ethAddr returns the remote address of validator i (0-based) of key generation k.
func (r *snapRun) ethAddr(i, k int) gethcommon.Address {
	if k == 0 {
		return r.w.e.Vals[i].EthAddr
	}
	key, err := crypto.ToECDSA(crypto.Keccak256([]byte(fmt.Sprintf("verif-val-eth-rot-%d-%d-%d", drv.Seed(), i, k))))
	if err != nil {
		panic(err)
	}
	return crypto.PubkeyToAddress(key.PublicKey)
}

func (r *snapRun) infos(i int, chains []string) []*valsettypes.ExternalChainInfo {
	a := r.ethAddr(i, r.key[i])
	traits := []string{}
	for t := 1; t <= r.ntr[i]; t++ {
		traits = append(traits, fmt.Sprintf("t%d", t))
	}
	out := []*valsettypes.ExternalChainInfo{}
	for _, c := range chains {
		out = append(out, &valsettypes.ExternalChainInfo{ChainType: "evm", ChainReferenceID: c, Address: a.Hex(), Pubkey: a.Bytes(), Traits: traits})
	}
	return out
}

// genOf reads the generation (key generation + number of traits) off an account list; -1 if there is none.
func (r *snapRun) genOf(i int, infos []*valsettypes.ExternalChainInfo) int {
	if len(infos) == 0 {
		return -1
	}
	for k := 0; k <= maxKeyGen; k++ {
		if strings.EqualFold(r.ethAddr(i, k).Hex(), infos[0].Address) {
			return k + len(infos[0].Traits)
		}
	}
	return 99
}

var snapWorlds = map[string]*stakeWorld{}

func snapWorld(stakes []int64, reg string) *stakeWorld {
	key := fmt.Sprint(stakes, reg)
	if w, ok := snapWorlds[key]; ok {
		return w
	}
	o := env.E1Options{Seed: drv.Seed(), Chains: chainNames, NoActive: true, Powers: stakes, ValAddrs: orderedAddrs(len(stakes), drv.Seed())}
	if reg == "first" { // nobody has an account on the other chains
		o.NoChainInfo = map[int][]string{}
		for i := range stakes {
			o.NoChainInfo[i] = chainNames[1:]
		}
	}
	w := newStakeWorld(o, snapMaxVals, snapUnbond, 0)
	// several worlds live in this process: the skyway keeper of the newest one is the (package-global) subscriber of
	// the chain-activation event and would be run on another world's stores; its reaction is not part of this subsystem
	eventbus.EVMActivatedChain().Unsubscribe("skyway-keeper")
	snapWorlds[key] = w
	return w
}

func (r *snapRun) chainIdx(name string) int {
	for i, c := range chainNames {
		if c == name {
			return i + 1
		}
	}
	return 0
}

func (r *snapRun) valByEth(addr string) int {
	for i := range r.w.e.Vals {
		for k := 0; k <= maxKeyGen; k++ {
			if strings.EqualFold(r.ethAddr(i, k).Hex(), addr) {
				return i + 1
			}
		}
	}
	return 0
}

func (r *snapRun) valByAddr(a sdk.ValAddress) int {
	for i, v := range r.w.e.Vals {
		if v.Val.Equals(a) {
			return i + 1
		}
	}
	return 0
}

func splitUnits(x interface{ String() string }, q, rem *int) {
	// tokens -> (units, remainder); values are small in this family
	var n int64
	fmt.Sscan(x.String(), &n)
	*q = int(n / unit)
	*rem = int(n % unit)
}

func (r *snapRun) snapObs(s *valsettypes.Snapshot) map[string]any {
	vals := []any{}
	for _, v := range s.Validators {
		accts := map[int]bool{}
		for _, ci := range v.ExternalChainInfos {
			if strings.ToLower(ci.ChainType) == "evm" {
				accts[r.chainIdx(ci.ChainReferenceID)] = true
			}
		}
		var q, rem int
		splitUnits(v.ShareCount, &q, &rem)
		vi := r.valByAddr(v.Address)
		g := 0
		if vi > 0 && len(v.ExternalChainInfos) > 0 {
			g = r.genOf(vi-1, v.ExternalChainInfos)
		}
		vals = append(vals, map[string]any{"v": vi, "share": q, "rem": rem, "accts": sortedInts(accts), "state": int(v.State), "gen": g})
	}
	// fingerprint of the COMPLETE stored record (addresses, pubkeys, balances, traits, shares, ...) except the list of chains
	cp := *s
	cp.Chains = nil
	bz, err := r.w.e.Cdc.Marshal(&cp)
	if err != nil {
		panic(err)
	}
	sum := sha256.Sum256(bz)
	var tq, trem int
	splitUnits(s.TotalShares, &tq, &trem)
	chains := []int{}
	for _, c := range s.Chains {
		chains = append(chains, r.chainIdx(c))
	}
	return map[string]any{"id": int(s.Id), "vals": vals, "total": tq, "trem": trem, "chains": chains, "at": int(s.CreatedAt.Unix() - r.w.base.Unix()),
		"fp": fmt.Sprintf("%x", sum[:8])}
}

func (r *snapRun) observe() map[string]any {
	e := r.w.e
	ctx := r.ctx
	o := map[string]any{}
	jailed, status, stake, rem := r.w.stakingObs(ctx)
	o["jailed"], o["status"], o["stake"], o["rem"] = jailed, status, stake, rem
	accts := []any{}
	gens := []int{}
	for i, v := range e.Vals {
		infos, err := e.Valset.GetValidatorChainInfos(ctx, v.Val)
		if err != nil {
			panic(err)
		}
		gens = append(gens, r.genOf(i, infos))
		m := map[int]bool{}
		for _, ci := range infos {
			m[r.chainIdx(ci.ChainReferenceID)] = true
		}
		accts = append(accts, sortedInts(m))
	}
	o["accts"], o["gen"] = accts, gens
	act := map[int]bool{}
	for _, c := range e.Evm.GetActiveChainNames(ctx) {
		act[r.chainIdx(c)] = true
	}
	o["active"] = sortedInts(act)
	cur, err := e.Valset.GetCurrentSnapshot(ctx)
	if err != nil {
		panic(err)
	}
	curID := 0
	if cur != nil {
		curID = int(cur.Id)
	}
	o["cur"] = curID
	// the same through the query path relayers use (snapshot id 0 = current)
	curq := 0
	if resp, err := e.Valset.GetSnapshotByID(ctx, &valsettypes.QueryGetSnapshotByIDRequest{SnapshotId: 0}); err == nil && resp.Snapshot != nil {
		curq = int(resp.Snapshot.Id)
	}
	o["curq"] = curq
	snaps := []any{}
	miss := 0
	for id := uint64(1); miss < 3; id++ { // every id ever issued, probing a little beyond the last one found
		s, err := e.Valset.FindSnapshotByID(ctx, id)
		if err != nil || s == nil {
			miss++
			continue
		}
		miss = 0
		snaps = append(snaps, r.snapObs(s))
	}
	o["snaps"] = snaps
	queue := []any{}
	for ci, c := range chainNames {
		msgs, err := e.Consensus.GetMessagesFromQueue(ctx, turnstoneQueue(c), 0)
		if err != nil {
			panic(err)
		}
		for _, m := range msgs {
			cm, err := m.ConsensusMsg(e.Cdc)
			if err != nil {
				panic(err)
			}
			em, ok := cm.(*evmtypes.Message)
			if !ok {
				continue
			}
			uv, ok := em.GetAction().(*evmtypes.Message_UpdateValset)
			if !ok {
				continue
			}
			vs := uv.UpdateValset.Valset
			vals := []any{}
			for i, a := range vs.Validators {
				p := vs.Powers[i]
				vals = append(vals, map[string]any{"v": r.valByEth(a), "hi": int(p >> 16), "lo": int(p & 0xffff), "p": fmt.Sprint(p)})
			}
			queue = append(queue, map[string]any{"c": ci + 1, "id": int(vs.ValsetID), "mid": int(m.GetId()), "vals": vals})
		}
	}
	o["queue"] = queue
	o["now"] = int(r.now)
	return o
}

func (r *snapRun) advance(dt int64) {
	r.now += dt
	r.height++
	r.ctx = r.ctx.WithBlockHeight(r.height).WithBlockTime(r.w.base.Add(time.Duration(r.now) * time.Second))
}

func (r *snapRun) step(s drv.Step) (res string, err error) {
	var a snapArgs
	mustArgs(s, &a)
	e := r.w.e
	switch s.Act {
	case "Build":
		var snap *valsettypes.Snapshot
		err, _ = drv.Recover(func() error { var e2 error; snap, e2 = e.Valset.TriggerSnapshotBuild(r.ctx); return e2 })
		if err != nil {
			return "fail", err
		}
		if snap == nil {
			return "noop", nil
		}
		return "ok", nil
	case "SetOnChain":
		err, _ = env.RunMsg(r.ctx, func(c sdk.Context) error { return e.Valset.SetSnapshotOnChain(c, uint64(a.ID), chainNames[a.C-1]) })
	case "Publish":
		cur, e2 := e.Valset.GetCurrentSnapshot(r.ctx)
		if e2 != nil || cur == nil {
			return "fail", fmt.Errorf("no current snapshot: %v", e2)
		}
		err, _ = drv.Recover(func() error { return e.Evm.PublishSnapshotToAllChains(r.ctx, cur, a.Force) })
	case "Register":
		v := e.Vals[a.V-1]
		chains := []string{}
		for _, c := range a.Cs {
			chains = append(chains, chainNames[c-1])
		}
		infos := r.infos(a.V-1, chains)
		err, _ = env.RunMsg(r.ctx, func(c sdk.Context) error { return e.Valset.AddExternalChainInfo(c, v.Val, infos) })
	case "Rotate":
		// the relayer registers the same chains again with a rotated key / with another trait
		v := e.Vals[a.V-1]
		cur, e2 := e.Valset.GetValidatorChainInfos(r.ctx, v.Val)
		if e2 != nil {
			panic(e2)
		}
		chains := []string{}
		for _, ci := range cur {
			chains = append(chains, ci.ChainReferenceID)
		}
		oldK, oldT := r.key[a.V-1], r.ntr[a.V-1]
		if a.Mode == "trait" {
			r.ntr[a.V-1]++
		} else {
			r.key[a.V-1]++
		}
		infos := r.infos(a.V-1, chains)
		err, _ = env.RunMsg(r.ctx, func(c sdk.Context) error { return e.Valset.AddExternalChainInfo(c, v.Val, infos) })
		if err != nil {
			r.key[a.V-1], r.ntr[a.V-1] = oldK, oldT
		}
	case "SetBalance":
		// what x/evm does with an attested balance report
		v := e.Vals[a.V-1]
		addr := r.ethAddr(a.V-1, r.key[a.V-1]).Hex()
		cur, _ := e.Valset.GetValidatorChainInfos(r.ctx, v.Val)
		for _, ci := range cur {
			if ci.ChainReferenceID == chainNames[a.C-1] {
				addr = ci.Address
			}
		}
		err, _ = env.RunMsg(r.ctx, func(c sdk.Context) error {
			return e.Valset.SetValidatorBalance(c, v.Val, "evm", chainNames[a.C-1], addr, big.NewInt(a.Bal*1_000_000_000))
		})
	case "Activate":
		c := chainNames[a.C-1]
		err, _ = env.RunMsg(r.ctx, func(cc sdk.Context) error {
			return e.Evm.ActivateChainReferenceID(cc, c, &evmtypes.SmartContract{Id: 1}, fmt.Sprintf("0x%040x", 0xc0de00+a.C), []byte("compass-"+c))
		})
	case "Delegate":
		err, _ = env.RunMsg(r.ctx, func(c sdk.Context) error {
			_, err := r.w.stk.Delegate(c, &stakingtypes.MsgDelegate{DelegatorAddress: r.w.delegator.String(), ValidatorAddress: e.Vals[a.V-1].Val.String(),
				Amount: sdk.NewInt64Coin(env.BondDenom, a.A*unit)})
			return err
		})
	case "Undelegate":
		err, _ = env.RunMsg(r.ctx, func(c sdk.Context) error {
			_, err := r.w.stk.Undelegate(c, &stakingtypes.MsgUndelegate{DelegatorAddress: r.w.delegator.String(), ValidatorAddress: e.Vals[a.V-1].Val.String(),
				Amount: sdk.NewInt64Coin(env.BondDenom, a.A*unit)})
			return err
		})
	case "JailF":
		val, e2 := e.Staking.GetValidator(r.ctx, e.Vals[a.V-1].Val)
		if e2 != nil {
			panic(e2)
		}
		if val.Jailed {
			return "fail", fmt.Errorf("already jailed (environment action not applicable)")
		}
		err, _ = drv.Recover(func() error { return e.Slashing.Jail(r.ctx, r.w.consAddr(r.ctx, a.V-1)) })
	case "Unjail":
		err = r.w.unjail(r.ctx, a.V-1)
	case "StakingEB":
		r.advance(a.Dt)
		_, err = e.Staking.EndBlocker(r.ctx)
		if err != nil {
			panic(err)
		}
	default:
		panic("unknown action " + s.Act)
	}
	return resOf(err), err
}

func TestDriveSnap(t *testing.T) {
	hs, err := drv.LoadHistories()
	if err != nil {
		t.Fatal(err)
	}
	em, err := drv.NewEmitter()
	if err != nil {
		t.Fatal(err)
	}
	defer em.Close()
	for _, h := range hs {
		if len(h.Steps) == 0 || h.Steps[0].Act != "InitS" {
			t.Fatalf("history %d does not start with InitS", h.H)
		}
		var ia snapArgs
		mustArgs(h.Steps[0], &ia)
		w := snapWorld(ia.Stakes, ia.Reg)
		cctx, _ := w.e.Ctx.CacheContext()
		r := &snapRun{w: w, ctx: cctx, height: w.e.Ctx.BlockHeight(), key: make([]int, len(w.e.Vals)), ntr: make([]int, len(w.e.Vals))}
		em.Emit(map[string]any{"h": h.H, "i": 0, "act": "InitS", "args": json.RawMessage(h.Steps[0].Args), "res": "init", "err": "", "obs": r.observe(),
			"maxvals": snapMaxVals, "unbond": int(snapUnbond / time.Second), "unit": unit, "nchains": len(chainNames)})
		for i, s := range h.Steps[1:] {
			res, err := r.step(s)
			em.Emit(map[string]any{"h": h.H, "i": i + 1, "act": s.Act, "args": json.RawMessage(s.Args), "res": res, "err": errStr(err), "obs": r.observe()})
		}
	}
}
