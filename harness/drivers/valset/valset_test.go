//go:build verif

// Drivers for specs/Valset.tla: TLC-generated histories are executed against the real staking, slashing,
// valset, evm and consensus keepers of the E1 environment; after every step the projection of the real
// stores is recorded.  The drivers contain no expectations.
//
//	TestDriveSnap   C10  snapshots, projection to chains (family "snap")
//	TestDriveAlive  C12  keep-alive jailing on the real constants, every block executed (families "alive", "ladder")
//	TestPowerSamples C10 power normalisation at real magnitude: (shares, total) -> powers through the real publish path
package valset

import (
	"bytes"
	"encoding/json"
	"fmt"
	"sort"
	"time"

	"cosmossdk.io/math"
	sdk "github.com/cosmos/cosmos-sdk/types"
	slashingkeeper "github.com/cosmos/cosmos-sdk/x/slashing/keeper"
	slashingtypes "github.com/cosmos/cosmos-sdk/x/slashing/types"
	stakingkeeper "github.com/cosmos/cosmos-sdk/x/staking/keeper"
	stakingtypes "github.com/cosmos/cosmos-sdk/x/staking/types"
	evmtypes "github.com/palomachain/paloma/v2/x/evm/types"
	"verifharness/drv"
	"verifharness/env"
)

const unit = 1_000_000 // tokens per stake unit (= power reduction)

var chainNames = []string{"eth-a", "eth-b"}

// orderedAddrs returns n plain 20-byte operator addresses in increasing byte order (index order = store order).
func orderedAddrs(n int, seed int64) [][]byte {
	out := [][]byte{}
	for i := 0; i < n; i++ {
		a := make([]byte, 20)
		a[0] = byte(0x10 + i)
		for j := 1; j < 20; j++ {
			a[j] = byte(0x41 + (int(seed)*7+i*13+j*5)%23) // letters, never 0x2c
		}
		out = append(out, a)
	}
	return out
}

type stakeWorld struct {
	e         *env.E1
	delegator sdk.AccAddress
	stk       stakingtypes.MsgServer
	slash     slashingtypes.MsgServer
	base      time.Time
}

func newStakeWorld(o env.E1Options, maxVals uint32, unbond time.Duration, height int64) *stakeWorld {
	e := env.NewE1(o)
	if height > 0 {
		e.Ctx = e.Ctx.WithBlockHeight(height) // unbonding entries created by the set-up mature relative to this height
	}
	w := &stakeWorld{e: e, stk: stakingkeeper.NewMsgServerImpl(e.Staking), slash: slashingkeeper.NewMsgServerImpl(e.Slashing), base: e.Ctx.BlockTime()}
	p, err := e.Staking.GetParams(e.Ctx)
	if err != nil {
		panic(err)
	}
	p.MaxValidators = maxVals
	p.UnbondingTime = unbond
	if err := e.Staking.SetParams(e.Ctx, p); err != nil {
		panic(err)
	}
	if _, err := e.Staking.EndBlocker(e.Ctx); err != nil {
		panic(err)
	}
	w.delegator = sdk.AccAddress(bytes.Repeat([]byte{0xd7}, 20))
	e.Fund(e.Ctx, w.delegator, sdk.NewCoins(sdk.NewCoin(env.BondDenom, math.NewInt(unit).MulRaw(1_000_000))))
	return w
}

func statusIdx(s stakingtypes.BondStatus) int {
	switch s {
	case stakingtypes.Bonded:
		return 0
	case stakingtypes.Unbonding:
		return 1
	}
	return 2
}

// stakingObs: per validator [jailed, status, stake units, stake remainder]
func (w *stakeWorld) stakingObs(ctx sdk.Context) (jailed []bool, status []int, stake []int, rem []int) {
	for _, v := range w.e.Vals {
		val, err := w.e.Staking.GetValidator(ctx, v.Val)
		if err != nil {
			panic(err)
		}
		jailed = append(jailed, val.Jailed)
		status = append(status, statusIdx(val.Status))
		q := val.Tokens.QuoRaw(unit)
		stake = append(stake, int(q.Int64()))
		rem = append(rem, int(val.Tokens.Sub(q.MulRaw(unit)).Int64()))
	}
	return
}

func (w *stakeWorld) consAddr(ctx sdk.Context, i int) sdk.ConsAddress {
	val, err := w.e.Staking.GetValidator(ctx, w.e.Vals[i].Val)
	if err != nil {
		panic(err)
	}
	c, err := val.GetConsAddr()
	if err != nil {
		panic(err)
	}
	return c
}

func (w *stakeWorld) unjail(ctx sdk.Context, i int) error {
	err, _ := env.RunMsg(ctx, func(c sdk.Context) error {
		_, err := w.slash.Unjail(c, &slashingtypes.MsgUnjail{ValidatorAddr: w.e.Vals[i].Val.String()})
		return err
	})
	return err
}

func resOf(err error) string {
	if err != nil {
		return "fail"
	}
	return "ok"
}

func errStr(err error) string {
	if err == nil {
		return ""
	}
	s := err.Error()
	if len(s) > 300 {
		s = s[:300]
	}
	return s
}

func mustArgs(s drv.Step, a any) {
	if err := json.Unmarshal(s.Args, a); err != nil {
		panic(fmt.Sprintf("bad args for %s: %v", s.Act, err))
	}
}

func sortedInts(m map[int]bool) []int {
	out := []int{}
	for k := range m {
		out = append(out, k)
	}
	sort.Ints(out)
	return out
}

func turnstoneQueue(chain string) string {
	return fmt.Sprintf("evm/%s/%s", chain, evmtypes.ConsensusTurnstoneMessage)
}
