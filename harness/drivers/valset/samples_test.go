//go:build verif

package valset

import (
	"bufio"
	"encoding/json"
	"fmt"
	"math/big"
	"math/rand"
	"os"
	"strconv"
	"strings"
	"testing"

	"cosmossdk.io/math"
	sdk "github.com/cosmos/cosmos-sdk/types"
	stakingtypes "github.com/cosmos/cosmos-sdk/x/staking/types"
	"github.com/palomachain/paloma/v2/util/eventbus"
	evmtypes "github.com/palomachain/paloma/v2/x/evm/types"
	valsettypes "github.com/palomachain/paloma/v2/x/valset/types"
	"verifharness/drv"
	"verifharness/env"
)

// TestPowerSamples records (shares, total) -> powers samples through the REAL path:
// staking delegations -> TriggerSnapshotBuild -> OnSnapshotBuilt -> PublishSnapshotToAllChains ->
// transformSnapshotToCompass -> isEnoughToReachConsensus -> consensus queue.
// Inputs are chosen with exact integer arithmetic on the INPUTS only (ratios just below k/2^32, magnitudes
// 2^53, 2^62, 2^63); the outputs are whatever the real code put into the queues (or its panic).

const nSampleVals = 26

type sampleIn struct {
	kind   string
	shares []*big.Int
	inB    []bool
}

func bi(s string) *big.Int { x, _ := new(big.Int).SetString(s, 10); return x }

func pow2(n uint) *big.Int { return new(big.Int).Lsh(big.NewInt(1), n) }

func allB(n int) []bool {
	out := make([]bool, n)
	for i := range out {
		out[i] = true
	}
	return out
}

// nearBoundary searches pairs (share, total) whose exact quotient share*2^32/total is just below an integer.
func nearBoundary(rnd *rand.Rand, lo, hi *big.Int, want int, bits uint) [][2]*big.Int {
	out := [][2]*big.Int{}
	two32 := pow2(32)
	span := new(big.Int).Sub(hi, lo)
	minShare := big.NewInt(unit)
	for it := 0; it < 4_000_000 && len(out) < want; it++ {
		total := new(big.Int).Add(lo, new(big.Int).Rand(rnd, span))
		k := new(big.Int).Rand(rnd, two32)
		share := new(big.Int).Mul(k, total)
		r := new(big.Int)
		share.QuoRem(share, two32, r) // share = floor(k*total/2^32), r = k*total mod 2^32
		if r.Sign() == 0 || share.Cmp(minShare) < 0 || new(big.Int).Sub(total, share).Cmp(minShare) < 0 {
			continue
		}
		// distance to the integer k is r/total; keep when r * 2^bits < total
		if new(big.Int).Lsh(r, bits).Cmp(total) < 0 {
			out = append(out, [2]*big.Int{share, total})
		}
	}
	return out
}

// explicit samples (replay of a recorded violation)
func fileInputs(path string) []sampleIn {
	b, err := os.ReadFile(path)
	if err != nil {
		panic(err)
	}
	var raw []struct {
		Shares []string `json:"shares"`
		InB    []bool   `json:"inB"`
		Kind   string   `json:"kind"`
	}
	if err := json.Unmarshal(b, &raw); err != nil {
		panic(err)
	}
	var in []sampleIn
	for _, r := range raw {
		s := sampleIn{kind: r.Kind, inB: r.InB}
		for _, x := range r.Shares {
			s.shares = append(s.shares, bi(x))
		}
		in = append(in, s)
	}
	return in
}

func sampleInputs(seed int64, n int) []sampleIn {
	if f := os.Getenv("VERIF_SAMPLE_FILE"); f != "" {
		return fileInputs(f)
	}
	rnd := rand.New(rand.NewSource(seed*104729 + 17))
	var in []sampleIn
	pair := func(kind string, share, total *big.Int) {
		in = append(in, sampleIn{kind, []*big.Int{share, new(big.Int).Sub(total, share)}, allB(2)})
	}
	// the documented pair
	pair("known", bi("314254135290"), bi("434013177983"))
	// ordinary ugrain magnitudes, quotient within 2^-23 (relative to total) below an integer
	for _, p := range nearBoundary(rnd, bi("100000000000"), bi("10000000000000"), n/4, 23) {
		pair("near", p[0], p[1])
	}
	for _, p := range nearBoundary(rnd, bi("10000000000000"), bi("9000000000000000"), n/8, 23) {
		pair("near", p[0], p[1])
	}
	// 25 equal validators, 3 equal validators of which 2 are on the second chain (sum = threshold exactly)
	eq := func(k int, x int64) []*big.Int {
		out := []*big.Int{}
		for i := 0; i < k; i++ {
			out = append(out, big.NewInt(x))
		}
		return out
	}
	in = append(in, sampleIn{"equal25", eq(25, 40_000_000_000), allB(25)})
	in = append(in, sampleIn{"equal3", eq(3, 7_000_000), []bool{true, true, false}})
	in = append(in, sampleIn{"equal3", eq(3, 7_000_000), []bool{true, false, false}})
	// publish gate boundary: k equal members of the second chain holding R, one validator without an account there holding
	// (R + d) / 2, i.e. the members' stake is two thirds of the total minus / plus a hair (d = +2 / -2) or exactly two thirds
	// (d = 0): the floored powers of the members then sum to the threshold or to a few units below it
	for _, k := range []int{2, 3, 4, 5, 6, 7} {
		for _, d := range []int64{2, 0, -2} {
			x := new(big.Int).Add(bi("2000000000000000"), new(big.Int).Lsh(new(big.Int).Rand(rnd, bi("1000000000000")), 1)) // even
			r := new(big.Int).Mul(x, big.NewInt(int64(k)))
			y := new(big.Int).Rsh(new(big.Int).Add(r, big.NewInt(d)), 1)
			g := sampleIn{kind: "gate"}
			for i := 0; i < k; i++ {
				g.shares = append(g.shares, new(big.Int).Set(x))
				g.inB = append(g.inB, true)
			}
			g.shares = append(g.shares, y)
			g.inB = append(g.inB, false)
			in = append(in, g)
		}
	}
	// random vectors, random membership on the second chain (both sides of the gate)
	for len(in) < n-16 {
		k := 2 + rnd.Intn(7)
		s := sampleIn{kind: "random"}
		for i := 0; i < k; i++ {
			mag := 6 + rnd.Intn(10)
			x := new(big.Int).Exp(big.NewInt(10), big.NewInt(int64(mag)), nil)
			x.Add(x, new(big.Int).Rand(rnd, x))
			s.shares = append(s.shares, x)
			s.inB = append(s.inB, rnd.Intn(4) != 0)
		}
		in = append(in, s)
	}
	// large magnitudes
	p53, p62, p63 := pow2(53), pow2(62), pow2(63)
	one := big.NewInt(1)
	sub := func(a, b *big.Int) *big.Int { return new(big.Int).Sub(a, b) }
	add := func(a, b *big.Int) *big.Int { return new(big.Int).Add(a, b) }
	big3 := [][]*big.Int{
		{add(p53, one), sub(p53, one)},
		{add(p53, one), p53, sub(p53, one)},
		{sub(p62, one), big.NewInt(unit)},
		{sub(p62, one), sub(p62, big.NewInt(unit+1))},
		{sub(p62, big.NewInt(12345678)), add(pow2(61), big.NewInt(987654321)), pow2(60)},
		{sub(p63, big.NewInt(2*unit)), big.NewInt(unit)},
	}
	for _, s := range big3 {
		in = append(in, sampleIn{"large", s, allB(len(s))})
	}
	for i := 0; i < 4; i++ {
		a := add(p53, new(big.Int).Rand(rnd, p62))
		b := add(p53, new(big.Int).Rand(rnd, p62))
		in = append(in, sampleIn{"large", []*big.Int{a, b}, []bool{true, rnd.Intn(2) == 0}})
	}
	// at and beyond the int64 range
	in = append(in, sampleIn{"ge63", []*big.Int{p62, p62}, allB(2)})                // total = 2^63
	in = append(in, sampleIn{"ge63", []*big.Int{p63, big.NewInt(unit)}, allB(2)})   // share = 2^63
	in = append(in, sampleIn{"ge63", []*big.Int{add(p63, p62), p62, p62}, allB(3)}) // share > 2^63
	return in
}

func TestPowerSamples(t *testing.T) {
	out := os.Getenv("VERIF_TRACE")
	if out == "" {
		t.Skip("VERIF_TRACE not set")
	}
	n, _ := strconv.Atoi(os.Getenv("VERIF_SAMPLES"))
	if n <= 0 {
		n = 150
	}
	powers := make([]int64, nSampleVals)
	for i := range powers {
		powers[i] = 1
	}
	w := newStakeWorld(env.E1Options{Seed: drv.Seed(), Chains: chainNames, NoActive: true, Powers: powers, MaxValidators: 100,
		ValAddrs: orderedAddrs(nSampleVals, drv.Seed())}, 100, snapUnbond, 0)
	eventbus.EVMActivatedChain().Unsubscribe("skyway-keeper")
	e := w.e
	activate := func(ctx sdk.Context, ci int) {
		c := chainNames[ci]
		if err := e.Evm.ActivateChainReferenceID(ctx, c, &evmtypes.SmartContract{Id: 1}, fmt.Sprintf("0x%040x", 0xc0de00+ci), []byte("compass-"+c)); err != nil {
			panic(err)
		}
	}
	activate(e.Ctx, 0)
	e.Fund(e.Ctx, w.delegator, sdk.NewCoins(sdk.NewCoin(env.BondDenom, math.NewIntFromBigInt(pow2(80)))))
	f, err := os.Create(out)
	if err != nil {
		t.Fatal(err)
	}
	defer f.Close()
	bw := bufio.NewWriter(f)
	defer bw.Flush()
	valByEth := func(a string) int {
		for i, v := range e.Vals {
			if strings.EqualFold(v.EthAddr.Hex(), a) {
				return i
			}
		}
		return -1
	}
	readQueue := func(ctx sdk.Context, c string, k int, id uint64) (bool, []string) {
		res := make([]string, k)
		for i := range res {
			res[i] = "-1"
		}
		msgs, err := e.Consensus.GetMessagesFromQueue(ctx, turnstoneQueue(c), 0)
		if err != nil {
			panic(err)
		}
		sent := false
		for _, m := range msgs {
			cm, err := m.ConsensusMsg(e.Cdc)
			if err != nil {
				panic(err)
			}
			em, ok := cm.(*evmtypes.Message)
			if !ok {
				continue
			}
			uv, ok := em.GetAction().(*evmtypes.Message_UpdateValset)
			if !ok || uv.UpdateValset.Valset.ValsetID != id {
				continue
			}
			sent = true
			for i, a := range uv.UpdateValset.Valset.Validators {
				if j := valByEth(a); j >= 0 && j < k {
					res[j] = strconv.FormatUint(uv.UpdateValset.Valset.Powers[i], 10)
				} else {
					res = append(res, "stray:"+a)
				}
			}
		}
		return sent, res
	}
	p63 := pow2(63)
	for si, s := range sampleInputs(drv.Seed(), n) {
		ctx, _ := e.Ctx.CacheContext()
		k := len(s.shares)
		rec := map[string]any{"i": si, "kind": s.kind, "inB": s.inB, "panic": "", "built": false, "sentA": false, "sentB": false}
		ge63 := false
		tot := new(big.Int)
		in := []string{}
		for _, x := range s.shares {
			tot.Add(tot, x)
			in = append(in, x.String())
			if x.Cmp(p63) >= 0 {
				ge63 = true
			}
		}
		if tot.Cmp(p63) >= 0 {
			ge63 = true
		}
		rec["ge63"], rec["in"] = ge63, in
		err, _ := drv.Recover(func() error {
			for i := 0; i < k; i++ {
				extra := new(big.Int).Sub(s.shares[i], big.NewInt(unit))
				if extra.Sign() > 0 {
					if _, err := w.stk.Delegate(ctx, &stakingtypes.MsgDelegate{DelegatorAddress: w.delegator.String(), ValidatorAddress: e.Vals[i].Val.String(),
						Amount: sdk.NewCoin(env.BondDenom, math.NewIntFromBigInt(extra))}); err != nil {
						return err
					}
				}
				if !s.inB[i] {
					v := e.Vals[i]
					if err := e.Valset.AddExternalChainInfo(ctx, v.Val, []*valsettypes.ExternalChainInfo{{ChainType: "evm", ChainReferenceID: chainNames[0], Address: v.EthAddr.Hex(), Pubkey: v.EthAddr.Bytes()}}); err != nil {
						return err
					}
				}
			}
			for i := k; i < nSampleVals; i++ {
				if err := e.Slashing.Jail(ctx, w.consAddr(ctx, i)); err != nil {
					return err
				}
			}
			_, err := e.Staking.EndBlocker(ctx)
			return err
		})
		if err != nil {
			t.Fatalf("sample %d set-up: %v", si, err)
		}
		var snap *valsettypes.Snapshot
		err, _ = drv.Recover(func() error { var e2 error; snap, e2 = e.Valset.TriggerSnapshotBuild(ctx); return e2 })
		if err != nil {
			rec["panic"] = errStr(err)
		}
		cur, _ := e.Valset.GetCurrentSnapshot(ctx)
		shares := make([]string, k)
		if cur != nil && (snap != nil || err != nil) && len(cur.Validators) == k {
			rec["built"] = true
			for _, v := range cur.Validators {
				for j := 0; j < k; j++ {
					if e.Vals[j].Val.Equals(v.Address) {
						shares[j] = v.ShareCount.String()
					}
				}
			}
			rec["shares"], rec["total"] = shares, cur.TotalShares.String()
			if err == nil {
				err, _ = drv.Recover(func() error {
					activate(ctx, 1)
					return e.Evm.PublishSnapshotToAllChains(ctx, cur, true)
				})
				if err != nil {
					rec["panic"] = errStr(err)
				}
			}
			rec["sentA"], rec["a"] = readQueue(ctx, chainNames[0], k, cur.Id)
			rec["sentB"], rec["b"] = readQueue(ctx, chainNames[1], k, cur.Id)
		}
		b, _ := json.Marshal(rec)
		bw.Write(b)
		bw.WriteByte('\n')
	}
}
