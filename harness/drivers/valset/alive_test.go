//go:build verif

package valset

import (
	"bytes"
	"encoding/json"
	"fmt"
	"math/rand"
	"sort"
	"testing"
	"time"

	"cosmossdk.io/store/prefix"
	sdk "github.com/cosmos/cosmos-sdk/types"
	govv1beta1 "github.com/cosmos/cosmos-sdk/x/gov/types/v1beta1"
	"github.com/palomachain/paloma/v2/x/valset"
	valsetkeeper "github.com/palomachain/paloma/v2/x/valset/keeper"
	valsettypes "github.com/palomachain/paloma/v2/x/valset/types"
	"verifharness/drv"
	"verifharness/env"
)

const (
	aliveMaxVals = 4
	aliveUnbond  = 600 * time.Second
	// constants of the code under test, recorded in the Init event and compared with the trace cfg
	codeTTL    = 2000
	codeGrace  = 30
	codeSweep  = 10
	codeWarmUp = 50
)

// relayer versions by index, in semantic-version order; 0 is not a semantic version at all. The list in use is chosen per
// history (InitK argument vset): set 1 has a pre-release, which orders just BELOW its release (semver 11.4).
var versionSets = [][]string{
	{"1.12.0", "v1.11.3", "v1.12.0", "v2.0.0"},
	{"1.12.0", "v1.11.3", "v1.12.0-rc.1", "v1.12.0"},
}
var versions = versionSets[0]

type aliveArgs struct {
	Stakes []int64 `json:"stakes"`
	Aset   *int    `json:"aset"`
	Vset   int     `json:"vset"`
	N      int     `json:"n"`
	Dt     int64   `json:"dt"`
	V      int     `json:"v"`
	Ver    int     `json:"ver"`
	Target int64   `json:"target"`
}

// NumAddrSets is the number of operator address pattern sets.
const NumAddrSets = 7

// addrSet returns 5 operator addresses in increasing byte order.
func addrSet(k int, seed int64) [][]byte {
	plain := func(first byte, salt int) []byte {
		a := make([]byte, 20)
		a[0] = first
		for j := 1; j < 20; j++ {
			a[j] = byte(0x41 + (salt*11+j*7)%23)
		}
		return a
	}
	var out [][]byte
	switch k {
	case 0: // nothing special
		for i := 0; i < 5; i++ {
			out = append(out, plain(byte(0x10+i), i))
		}
	case 1: // 0x2c at the first, a middle and the last position, and several at once; one clean
		a := plain(0x2c, 1)
		b := plain(0x30, 2)
		b[9] = 0x2c
		c := plain(0x31, 3)
		c[19] = 0x2c
		d := plain(0x32, 4)
		d[3], d[4], d[12] = 0x2c, 0x2c, 0x2c
		out = [][]byte{plain(0x10, 0), a, b, c, d}
	case 2: // 0x00 and 0xff bytes
		z := make([]byte, 20)
		z[19] = 1
		f := bytes.Repeat([]byte{0xff}, 20)
		m := plain(0x20, 1)
		m[0], m[7], m[19] = 0x00, 0xff, 0x00
		out = [][]byte{z, m, plain(0x40, 2), plain(0x41, 3), f}
	case 3: // prefix / suffix of one another, 32-byte addresses
		a := plain(0x15, 1)
		b := append(append([]byte{}, a...), bytes.Repeat([]byte{0x55}, 12)...) // a is a prefix of b (32 bytes)
		c := append(bytes.Repeat([]byte{0x56}, 12), a...)                      // a is a suffix of c (32 bytes)
		d := bytes.Repeat([]byte{0x77}, 32)
		out = [][]byte{a, b, c, d, plain(0x7a, 2)}
	case 4: // one address is another one followed by 0x2c and more bytes (32 bytes); one is the tail after the 0x2c
		y := plain(0x15, 1)
		tail := plain(0x61, 2)[:11]
		x := append(append(append([]byte{}, y...), 0x2c), tail...)
		t20 := append(append([]byte{}, tail...), bytes.Repeat([]byte{0x62}, 9)...)
		out = [][]byte{y, x, plain(0x40, 3), t20, plain(0x7a, 4)}
	case 5: // every address contains 0x2c
		for i := 0; i < 5; i++ {
			a := plain(byte(0x10+i), i)
			a[1+3*i] = 0x2c
			out = append(out, a)
		}
	default: // seed-derived random addresses
		rnd := rand.New(rand.NewSource(seed*7919 + int64(k)))
		for i := 0; i < 5; i++ {
			a := make([]byte, 20)
			rnd.Read(a)
			out = append(out, a)
		}
	}
	// store iteration order of the staking module: by length, then bytes
	sort.Slice(out, func(i, j int) bool {
		if len(out[i]) != len(out[j]) {
			return len(out[i]) < len(out[j])
		}
		return bytes.Compare(out[i], out[j]) < 0
	})
	return out
}

type aliveWorld struct {
	*stakeWorld
	am    valset.AppModule
	ms    valsettypes.MsgServer
	gov   govv1beta1.Handler
	aset  int
	comma []int // validators whose operator address contains 0x2c
	mixed bool  // operator addresses of different lengths
	frag  []int // validators whose operator address equals a 0x2c-delimited piece of another validator's address
	addrs []string
}

var aliveWorlds = map[string]*aliveWorld{}

func getAliveWorld(stakes []int64, aset int) *aliveWorld {
	key := fmt.Sprint(stakes, aset)
	if w, ok := aliveWorlds[key]; ok {
		return w
	}
	addrs := addrSet(aset, drv.Seed())
	sw := newStakeWorld(env.E1Options{Seed: drv.Seed(), Chains: chainNames[:1], Powers: stakes, ValAddrs: addrs}, aliveMaxVals, aliveUnbond, 1)
	w := &aliveWorld{stakeWorld: sw, aset: aset, comma: []int{}, frag: []int{}}
	w.am = valset.NewAppModule(sw.e.Cdc, *sw.e.Valset, sw.e.Account, sw.e.Bank)
	w.ms = valsetkeeper.NewMsgServerImpl(*sw.e.Valset)
	w.gov = valset.NewValsetProposalHandler(*sw.e.Valset)
	for i, a := range addrs {
		if bytes.Contains(a, []byte{0x2c}) {
			w.comma = append(w.comma, i+1)
		}
		w.addrs = append(w.addrs, fmt.Sprintf("%x", a))
		if len(a) != len(addrs[0]) {
			w.mixed = true
		}
		for j, b := range addrs {
			if j != i && bytes.Contains(b, []byte{0x2c}) {
				for _, piece := range bytes.Split(b, []byte{0x2c}) {
					if bytes.Equal(piece, a) {
						w.frag = append(w.frag, i+1)
					}
				}
			}
		}
	}
	aliveWorlds[key] = w
	return w
}

type aliveRun struct {
	w   *aliveWorld
	ctx sdk.Context
	h   int64 // block in progress
	now int64 // its time (seconds after base)
}

func (r *aliveRun) setBlock() {
	r.ctx = r.ctx.WithBlockHeight(r.h).WithBlockTime(r.w.base.Add(time.Duration(r.now) * time.Second))
}

func verIdx(s string) int {
	for i, v := range versions {
		if v == s {
			return i
		}
	}
	return -1
}

func (r *aliveRun) observe() map[string]any {
	e := r.w.e
	ctx := r.ctx
	o := map[string]any{}
	jailed, status, stake, rem := r.w.stakingObs(ctx)
	o["jailed"], o["status"], o["stake"], o["rem"] = jailed, status, stake, rem
	au, until, grace := []int{}, []int{}, []int{}
	gs := prefix.NewStore(ctx.KVStore(e.Keys[valsettypes.StoreKey]), []byte("grace-period"))
	for i, v := range e.Vals {
		ka, err := e.Valset.ValidatorKeepAliveData(ctx, v.Val)
		if err != nil {
			au = append(au, 0)
		} else {
			au = append(au, int(ka.AliveUntilBlockHeight))
		}
		si, err := e.Slashing.GetValidatorSigningInfo(ctx, r.w.consAddr(ctx, i))
		u := int64(0)
		if err == nil && si.JailedUntil.After(r.w.base) {
			u = si.JailedUntil.Unix() - r.w.base.Unix()
		}
		until = append(until, int(u))
		g := 0
		if bz := gs.Get(v.Val); bz != nil {
			g = int(sdk.BigEndianToUint64(bz))
		}
		grace = append(grace, g)
	}
	o["au"], o["until"], o["graceStore"] = au, until, grace
	req, err := e.Valset.PigeonRequirements(ctx)
	if err != nil {
		panic(err)
	}
	o["minVer"] = verIdx(req.MinVersion)
	sch, err := e.Valset.ScheduledPigeonRequirements(ctx)
	if err != nil || sch == nil || sch.Requirements == nil {
		o["sched"] = map[string]any{"ver": 0, "target": 0}
	} else {
		o["sched"] = map[string]any{"ver": verIdx(sch.Requirements.MinVersion), "target": int(sch.TargetBlockHeight)}
	}
	o["h"], o["now"] = int(r.h), int(r.now)
	return o
}

// oneBlock closes block r.h with the real end-blockers (staking, then valset) and begins block r.h+1 at time+dt.
func (r *aliveRun) oneBlock(dt int64) (err error) {
	err, _ = drv.Recover(func() error {
		if _, err := r.w.e.Staking.EndBlocker(r.ctx); err != nil {
			return err
		}
		if err := r.w.am.EndBlock(r.ctx); err != nil {
			return err
		}
		r.h++
		r.now += dt
		r.setBlock()
		return r.w.am.BeginBlock(r.ctx)
	})
	return err
}

func obsKey(o map[string]any) string {
	c := map[string]any{}
	for k, v := range o {
		if k != "h" && k != "now" && k != "graceStore" { // graceStore is an internal store (diagnostics only)
			c[k] = v
		}
	}
	b, _ := json.Marshal(c)
	return string(b)
}

func (r *aliveRun) msg(f func(c sdk.Context) error) error {
	err, _ := env.RunMsg(r.ctx, f)
	return err
}

func TestDriveAlive(t *testing.T) {
	hs, err := drv.LoadHistories()
	if err != nil {
		t.Fatal(err)
	}
	em, err := drv.NewEmitter()
	if err != nil {
		t.Fatal(err)
	}
	defer em.Close()
	for _, h := range hs {
		if len(h.Steps) == 0 || h.Steps[0].Act != "InitK" {
			t.Fatalf("history %d does not start with InitK", h.H)
		}
		var ia aliveArgs
		mustArgs(h.Steps[0], &ia)
		aset := h.H % NumAddrSets
		if ia.Aset != nil {
			aset = *ia.Aset
		}
		versions = versionSets[ia.Vset%len(versionSets)]
		w := getAliveWorld(ia.Stakes, aset)
		cctx, _ := w.e.Ctx.CacheContext()
		r := &aliveRun{w: w, ctx: cctx, h: 1, now: 0}
		r.setBlock()
		if err := w.am.BeginBlock(r.ctx); err != nil {
			t.Fatal(err)
		}
		idx := 0
		emit := func(act string, args any, res string, err error, extra map[string]any) {
			ev := map[string]any{"h": h.H, "i": idx, "act": act, "args": args, "res": res, "err": errStr(err), "obs": r.observe(), "comma": w.comma, "frag": w.frag}
			for k, v := range extra {
				ev[k] = v
			}
			em.Emit(ev)
			idx++
		}
		emit("InitK", map[string]any{"stakes": ia.Stakes, "aset": aset, "vset": ia.Vset % len(versionSets)}, "init", nil, map[string]any{
			"ttl": codeTTL, "grace": codeGrace, "sweep": codeSweep, "warmup": codeWarmUp, "maxvals": aliveMaxVals, "unbond": int(aliveUnbond / time.Second),
			"addrs": w.addrs, "versions": versions, "mixed": w.mixed})
		for _, s := range h.Steps[1:] {
			var a aliveArgs
			mustArgs(s, &a)
			switch s.Act {
			case "Blocks":
				// every block is executed; consecutive blocks after which the observation is identical are recorded as one run
				from, t0 := r.h, r.now
				runLen := 0
				key := ""
				var last map[string]any
				flush := func() {
					if runLen > 0 {
						em.Emit(map[string]any{"h": h.H, "i": idx, "act": "Blocks", "args": map[string]any{"n": runLen, "dt": a.Dt}, "res": "ok", "err": "",
							"obs": last, "comma": w.comma, "frag": w.frag, "from": int(from), "to": int(from) + runLen - 1, "t0": int(t0)})
						idx++
					}
				}
				var berr error
				for b := 0; b < a.N; b++ {
					bh, bt := r.h, r.now
					if berr = r.oneBlock(a.Dt); berr != nil {
						break
					}
					o := r.observe()
					k := obsKey(o)
					if runLen > 0 && k != key {
						flush()
						from, t0, runLen = bh, bt, 0
					}
					key, last = k, o
					runLen++
				}
				flush()
				if berr != nil {
					emit("Blocks", map[string]any{"n": 0, "dt": a.Dt}, "fail", berr, map[string]any{"from": int(r.h), "to": int(r.h) - 1, "t0": int(r.now)})
				}
			case "KeepAlive":
				v := w.e.Vals[a.V-1]
				err := r.msg(func(c sdk.Context) error {
					_, err := w.ms.KeepAlive(c, &valsettypes.MsgKeepAlive{PigeonVersion: versions[a.Ver], Metadata: valsettypes.MsgMetadata{Creator: v.Acc.String(), Signers: []string{v.Acc.String()}}})
					return err
				})
				emit(s.Act, json.RawMessage(s.Args), resOf(err), err, map[string]any{"from": 0, "to": 0, "t0": 0})
			case "Jail":
				err := r.msg(func(c sdk.Context) error {
					return w.e.Valset.Jail(c, w.e.Vals[a.V-1].Val, "verif: jailed for another reason")
				})
				emit(s.Act, json.RawMessage(s.Args), resOf(err), err, map[string]any{"from": 0, "to": 0, "t0": 0})
			case "Unjail":
				err := r.w.unjail(r.ctx, a.V-1)
				emit(s.Act, json.RawMessage(s.Args), resOf(err), err, map[string]any{"from": 0, "to": 0, "t0": 0})
			case "SetMinVersion":
				err := r.msg(func(c sdk.Context) error {
					return w.gov(c, &valsettypes.SetPigeonRequirementsProposal{Title: "t", Description: "d", MinVersion: versions[a.Ver], TargetBlockHeight: uint64(a.Target)})
				})
				emit(s.Act, json.RawMessage(s.Args), resOf(err), err, map[string]any{"from": 0, "to": 0, "t0": 0})
			default:
				t.Fatalf("unknown action %s", s.Act)
			}
		}
	}
}
