//go:build verif

// Driver for specs/TokenBinding.tla: token admins (re)bind their factory denoms to ERC-20 contracts through the real
// msgServer.SetERC20ToTokenDenom while transfers of those denoms are pending in the real outgoing pool; the projection of
// the real stores (both binding indexes, pool, escrow, balances) is recorded after every step. No expectations here.
package tokbinding

import (
	"context"
	"encoding/json"
	"fmt"
	"testing"

	"github.com/cosmos/cosmos-sdk/crypto/keys/secp256k1"
	sdk "github.com/cosmos/cosmos-sdk/types"
	st "github.com/palomachain/paloma/v2/x/skyway/types"
	tftypes "github.com/palomachain/paloma/v2/x/tokenfactory/types"
	valsettypes "github.com/palomachain/paloma/v2/x/valset/types"
	"verifharness/drv"
	"verifharness/env"
)

const (
	chain   = "eth-a"
	nUser   = 2
	initBal = 2
)

var contracts = []string{
	"0x1111111111111111111111111111111111111111",
	"0x2222222222222222222222222222222222222222",
	"0x3333333333333333333333333333333333333333",
}

// creatorIsAdmin is the token factory as the bridge sees it when no admin was handed over: the creator named in
// factory/<creator>/<sub> administers the denom (hand-overs are C03 / C16 territory).
type creatorIsAdmin struct{}

func (creatorIsAdmin) GetAuthorityMetadata(_ context.Context, denom string) (tftypes.DenomAuthorityMetadata, error) {
	creator, _, err := tftypes.DeconstructDenom(denom)
	return tftypes.DenomAuthorityMetadata{Admin: creator}, err
}

type world struct {
	e      *env.E1
	users  []sdk.AccAddress
	denoms []string // denom d-1 is administered by user d-1
}

type args struct {
	U  int `json:"u"`
	D  int `json:"d"`
	C  int `json:"c"`
	ID int `json:"id"`
}

func newWorld() *world {
	e := env.NewE1(env.E1Options{Seed: drv.Seed(), Chains: []string{chain}, Powers: []int64{10, 10, 10}, TokenFact: creatorIsAdmin{}})
	w := &world{e: e}
	for i := 0; i < nUser; i++ {
		k := secp256k1.GenPrivKeyFromSecret([]byte(fmt.Sprintf("verif-tokbinding-user-%d-%d", drv.Seed(), i)))
		a := sdk.AccAddress(k.PubKey().Address())
		w.users = append(w.users, a)
		w.denoms = append(w.denoms, "factory/"+a.String()+fmt.Sprintf("/tok%d", i+1))
	}
	for _, u := range w.users {
		for _, d := range w.denoms {
			e.Fund(e.Ctx, u, sdk.NewCoins(sdk.NewInt64Coin(d, initBal)))
		}
	}
	return w
}

func meta(a sdk.AccAddress) valsettypes.MsgMetadata {
	return valsettypes.MsgMetadata{Creator: a.String(), Signers: []string{a.String()}}
}

func (w *world) userIdx(a sdk.AccAddress) int {
	for i, u := range w.users {
		if u.Equals(a) {
			return i + 1
		}
	}
	return 0
}

func (w *world) denomIdx(d string) int {
	for i, x := range w.denoms {
		if x == d {
			return i + 1
		}
	}
	return 0
}

func (w *world) conIdx(c st.EthAddress) int {
	for i, x := range contracts {
		a, _ := st.NewEthAddress(x)
		if a.GetAddress() == c.GetAddress() {
			return i + 1
		}
	}
	return 0
}

func (w *world) observe(ctx sdk.Context) map[string]any {
	k := w.e.Skyway
	o := map[string]any{}
	fwd := []int{}
	for _, d := range w.denoms {
		c, err := k.GetERC20OfDenom(ctx, chain, d)
		if err != nil || c == nil {
			fwd = append(fwd, 0)
		} else {
			fwd = append(fwd, w.conIdx(*c))
		}
	}
	rev := []int{}
	for _, x := range contracts {
		a, _ := st.NewEthAddress(x)
		d, err := k.GetDenomOfERC20(ctx, chain, *a)
		if err != nil || d == "" {
			rev = append(rev, 0)
		} else {
			rev = append(rev, w.denomIdx(d))
		}
	}
	pool, err := k.GetUnbatchedTransactions(ctx)
	if err != nil {
		panic(err)
	}
	ps := []any{}
	for _, tx := range pool {
		ps = append(ps, map[string]any{"id": int(tx.Id), "sender": w.userIdx(tx.Sender), "con": w.conIdx(tx.Erc20Token.Contract)})
	}
	mod := w.e.Account.GetModuleAddress(st.ModuleName)
	escrow := []int{}
	for _, d := range w.denoms {
		escrow = append(escrow, int(w.e.Bank.GetBalance(ctx, mod, d).Amount.Int64()))
	}
	bal := []any{}
	for _, u := range w.users {
		row := []int{}
		for _, d := range w.denoms {
			row = append(row, int(w.e.Bank.GetBalance(ctx, u, d).Amount.Int64()))
		}
		bal = append(bal, row)
	}
	o["fwd"], o["rev"], o["pool"], o["escrow"], o["bal"] = fwd, rev, ps, escrow, bal
	return o
}

func (w *world) step(ctx sdk.Context, s drv.Step) (res string, extra map[string]any) {
	var a args
	if err := json.Unmarshal(s.Args, &a); err != nil {
		panic(err)
	}
	e := w.e
	extra = map[string]any{"id": 0, "err": ""}
	msg := func(f func(ctx sdk.Context) error) string {
		err, _ := env.RunMsg(ctx, f)
		if err != nil {
			extra["err"] = err.Error()
			return "fail"
		}
		return "ok"
	}
	switch s.Act {
	case "Bind":
		res = msg(func(ctx sdk.Context) error {
			_, err := e.SkywayMsg.SetERC20ToTokenDenom(ctx, &st.MsgSetERC20ToTokenDenom{Metadata: meta(w.users[a.U-1]), Denom: w.denoms[a.D-1], ChainReferenceId: chain, Erc20: contracts[a.C-1]})
			return err
		})
	case "Send":
		before, _ := e.Skyway.GetUnbatchedTransactions(ctx)
		res = msg(func(ctx sdk.Context) error {
			_, err := e.SkywayMsg.SendToRemote(ctx, &st.MsgSendToRemote{EthDest: "0x00000000000000000000000000000000000000aa", Amount: sdk.NewInt64Coin(w.denoms[a.D-1], 1), ChainReferenceId: chain, Metadata: meta(w.users[a.U-1])})
			return err
		})
		if res == "ok" {
			after, _ := e.Skyway.GetUnbatchedTransactions(ctx)
			old := map[uint64]bool{}
			for _, tx := range before {
				old[tx.Id] = true
			}
			for _, tx := range after {
				if !old[tx.Id] {
					extra["id"] = int(tx.Id)
				}
			}
		}
	case "Cancel":
		res = msg(func(ctx sdk.Context) error {
			_, err := e.SkywayMsg.CancelSendToRemote(ctx, &st.MsgCancelSendToRemote{TransactionId: uint64(a.ID), Metadata: meta(w.users[a.U-1])})
			return err
		})
	default:
		panic("unknown action " + s.Act)
	}
	return res, extra
}

func TestDriveTokenBinding(t *testing.T) {
	hs, err := drv.LoadHistories()
	if err != nil {
		t.Fatal(err)
	}
	em, err := drv.NewEmitter()
	if err != nil {
		t.Fatal(err)
	}
	defer em.Close()
	w := newWorld()
	for _, h := range hs {
		ctx, _ := w.e.Ctx.CacheContext() // branch of the prepared world, never written back
		em.Emit(map[string]any{"h": h.H, "i": 0, "act": "Init", "obs": w.observe(ctx)})
		for i, s := range h.Steps {
			res, extra := w.step(ctx, s)
			ev := map[string]any{"h": h.H, "i": i + 1, "act": s.Act, "args": json.RawMessage(s.Args), "res": res, "obs": w.observe(ctx)}
			for k, v := range extra {
				ev[k] = v
			}
			em.Emit(ev)
		}
	}
}
