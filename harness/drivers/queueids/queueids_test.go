//go:build verif

// Driver for specs/QueueIds.tla (E1): Put / Replace / Remove / Elect on the real consensus keeper
// with the four queue types the evm module registers for each of two chains.
//
//	Put      Consensus.PutMessageInQueue(queue, msg, opts)
//	Replace  Consensus.PutMessageInQueue(queue, msg', {MsgIDToReplace: id})   (the path estimate.go uses)
//	Remove   Consensus.DeleteJob(queue, id)                                    (Queue.Remove)
//	Elect    every validator Consensus.AddMessageGasEstimates, then Consensus.CheckAndProcessEstimatedMessages
//	         (SetElectedGasEstimate followed by the fee re-issue Put with MsgIDToReplace)
//
// Recorded after every step: the id the call returned, the contents of all eight queues (id, content
// version, whether an estimate is elected) and the real id counter.  No expectations here.
package queueids

import (
	"encoding/json"
	"fmt"
	"sort"
	"strings"
	"testing"
	"time"

	sdk "github.com/cosmos/cosmos-sdk/types"
	keeperutil "github.com/palomachain/paloma/v2/util/keeper"
	"github.com/palomachain/paloma/v2/x/consensus/keeper/consensus"
	consensustypes "github.com/palomachain/paloma/v2/x/consensus/types"
	evmtypes "github.com/palomachain/paloma/v2/x/evm/types"
	"verifharness/drv"
	"verifharness/env"
)

var chains = []string{"eth-a", "eth-b"}

// model queue name -> real sub-queue name (x/evm/keeper.SupportedConsensusQueues)
var subqueue = map[string]string{
	"turnstone": evmtypes.ConsensusTurnstoneMessage,
	"balances":  "validators-balances",
	"funds":     "collect-fund-events",
	"refblock":  "reference-block",
}

var queueOrder = []string{"turnstone", "balances", "funds", "refblock"}

// the key of the single counter (x/consensus/keeper/consensus/types.go consensusQueueIDCounterKey)
const counterKey = "consensus-queue-counter-"

func queueName(chain, q string) string {
	// consensustypes.Queue(subqueue, "evm", chain)
	return fmt.Sprintf("evm/%s/%s", chain, subqueue[q])
}

type args struct {
	C  string `json:"c"`
	Q  string `json:"q"`
	ID int    `json:"id"`
}

var t0 = time.Date(2024, 1, 1, 12, 0, 0, 0, time.UTC)

func newMsg(e *env.E1, chain, q string, ver int) consensus.ConsensusMsg {
	v := e.Vals[0]
	switch q {
	case "turnstone":
		return &evmtypes.Message{
			TurnstoneID: e.CompassID[chain], ChainReferenceID: chain, Assignee: v.Val.String(), AssigneeRemoteAddress: v.EthAddr.Hex(),
			Action: &evmtypes.Message_SubmitLogicCall{SubmitLogicCall: &evmtypes.SubmitLogicCall{
				HexContractAddress: "0x1111111111111111111111111111111111111111", Abi: []byte("[]"), Payload: []byte{1, 2, 3, 4},
				Deadline: 1704110400 + int64(ver), SenderAddress: v.Acc.Bytes(), ContractAddress: v.Acc.Bytes(),
			}},
		}
	case "balances":
		return &evmtypes.ValidatorBalancesAttestation{HexAddresses: []string{v.EthAddr.Hex()}, ValAddresses: []sdk.ValAddress{v.Val},
			FromBlockTime: t0.Add(time.Duration(ver) * time.Second)}
	case "funds":
		return &evmtypes.CollectFunds{FromBlockHeight: uint64(ver), ToBlockHeight: 5000}
	case "refblock":
		return &evmtypes.ReferenceBlockAttestation{FromBlockTime: t0.Add(time.Duration(ver) * time.Second)}
	}
	panic("unknown queue " + q)
}

// verOf reads the content version back out of a stored message (-1: not a message of this driver).
func verOf(m consensustypes.ConsensusMsg) int {
	switch x := m.(type) {
	case *evmtypes.Message:
		if a := x.GetSubmitLogicCall(); a != nil && a.Deadline >= 1704110400 {
			return int(a.Deadline - 1704110400)
		}
		return -1
	case *evmtypes.ValidatorBalancesAttestation:
		return int(x.FromBlockTime.Sub(t0) / time.Second)
	case *evmtypes.CollectFunds:
		return int(x.FromBlockHeight)
	case *evmtypes.ReferenceBlockAttestation:
		return int(x.FromBlockTime.Sub(t0) / time.Second)
	}
	return -1
}

type world struct {
	e    *env.E1
	ider keeperutil.IDGenerator
}

func (w *world) observe(ctx sdk.Context, base uint64) (map[string]any, error) {
	live := []any{}
	for _, c := range chains {
		for _, q := range queueOrder {
			msgs, err := w.e.Consensus.GetMessagesFromQueue(ctx, queueName(c, q), 0)
			if err != nil {
				return nil, fmt.Errorf("queue %s: %w", queueName(c, q), err)
			}
			for _, m := range msgs {
				cm, err := w.unpack(m)
				if err != nil {
					return nil, err
				}
				live = append(live, map[string]any{"c": c, "q": q, "id": int(m.GetId()) - int(base), "ver": verOf(cm), "est": m.GetGasEstimate() != 0})
			}
		}
	}
	sort.Slice(live, func(i, j int) bool {
		a, b := live[i].(map[string]any), live[j].(map[string]any)
		if a["id"].(int) != b["id"].(int) {
			return a["id"].(int) < b["id"].(int)
		}
		return a["c"].(string)+a["q"].(string) < b["c"].(string)+b["q"].(string)
	})
	return map[string]any{"live": live, "counter": int(w.ider.GetLastID(ctx, counterKey)) - int(base)}, nil
}

// unpack decodes the queued message.  evm.CollectFunds is a queue message type of the evm module but is not
// registered as a ConsensusMsg implementation, so QueuedSignedMessage.ConsensusMsg fails for it; it is decoded directly.
func (w *world) unpack(m consensustypes.QueuedSignedMessageI) (consensustypes.ConsensusMsg, error) {
	if a := m.GetMsg(); a != nil && strings.HasSuffix(a.TypeUrl, ".CollectFunds") {
		var cf evmtypes.CollectFunds
		if err := cf.Unmarshal(a.Value); err != nil {
			return nil, err
		}
		return &cf, nil
	}
	return m.ConsensusMsg(w.e.Cdc)
}

func classify(err error) string {
	if err == nil {
		return "ok"
	}
	s := err.Error()
	switch {
	case strings.Contains(s, "does not exist"):
		return "notfound"
	case strings.Contains(s, "gas estimate already exists"):
		return "already"
	}
	if len(s) > 120 {
		s = s[:120]
	}
	return "err:" + s
}

func (w *world) find(ctx sdk.Context, queue string, id uint64) (consensustypes.QueuedSignedMessageI, error) {
	msgs, err := w.e.Consensus.GetMessagesFromQueue(ctx, queue, 0)
	if err != nil {
		return nil, err
	}
	for _, m := range msgs {
		if m.GetId() == id {
			return m, nil
		}
	}
	return nil, nil
}

func TestDriveQueueIds(t *testing.T) {
	hs, err := drv.LoadHistories()
	if err != nil {
		t.Fatal(err)
	}
	em, err := drv.NewEmitter()
	if err != nil {
		t.Fatal(err)
	}
	defer em.Close()
	e := env.NewE1(env.E1Options{Seed: drv.Seed(), Chains: chains, Powers: []int64{10, 10, 10}})
	if err := e.Treasury.SetCommunityFundFee(e.Ctx, "0.01"); err != nil {
		t.Fatal(err)
	}
	if err := e.Treasury.SetSecurityFee(e.Ctx, "0.01"); err != nil {
		t.Fatal(err)
	}
	w := &world{e: e, ider: keeperutil.NewIDGenerator(e.Consensus, nil)}
	for _, h := range hs {
		ctx, _ := e.Ctx.CacheContext()
		// ids are recorded relative to the chain's counter at the start of the history
		base := w.ider.GetLastID(ctx, counterKey)
		obs, err := w.observe(ctx, base)
		if err != nil {
			t.Fatal(err)
		}
		em.Emit(map[string]any{"h": h.H, "i": 0, "act": "Init", "obs": obs, "base": int(base)})
		for i, s := range h.Steps {
			var a args
			if err := json.Unmarshal(s.Args, &a); err != nil {
				t.Fatal(err)
			}
			qn := queueName(a.C, a.Q)
			realID := base + uint64(a.ID)
			got := 0
			var opErr error
			panicked := false
			switch s.Act {
			case "Put":
				opErr, panicked = env.RunMsg(ctx, func(ctx sdk.Context) error {
					id, err := e.Consensus.PutMessageInQueue(ctx, qn, newMsg(e, a.C, a.Q, 0),
						&consensus.PutOptions{RequireSignatures: true, RequireGasEstimation: a.Q == "turnstone"})
					got = int(id) - int(base)
					return err
				})
			case "Replace":
				opErr, panicked = env.RunMsg(ctx, func(ctx sdk.Context) error {
					ver := 0
					cur, err := w.find(ctx, qn, realID)
					if err != nil {
						return err
					}
					var msg consensus.ConsensusMsg = newMsg(e, a.C, a.Q, 1)
					if cur != nil {
						cm, err := w.unpack(cur)
						if err != nil {
							return err
						}
						ver = verOf(cm)
						msg = newMsg(e, a.C, a.Q, ver+1)
					}
					id, err := e.Consensus.PutMessageInQueue(ctx, qn, msg, &consensus.PutOptions{MsgIDToReplace: realID})
					got = int(id) - int(base)
					return err
				})
			case "Remove":
				opErr, panicked = env.RunMsg(ctx, func(ctx sdk.Context) error { return e.Consensus.DeleteJob(ctx, qn, realID) })
			case "Elect":
				opErr, panicked = env.RunMsg(ctx, func(ctx sdk.Context) error {
					for k, v := range e.Vals {
						err := e.Consensus.AddMessageGasEstimates(ctx, v.Val, []*consensustypes.MsgAddMessageGasEstimates_GasEstimate{
							{MsgId: realID, QueueTypeName: qn, Value: uint64(200000 + 1000*k)}})
						if err != nil {
							return err
						}
					}
					return e.Consensus.CheckAndProcessEstimatedMessages(ctx)
				})
			default:
				t.Fatalf("unknown action %q", s.Act)
			}
			res := classify(opErr)
			if panicked {
				res = "panic:" + res
			}
			if res != "ok" {
				got = 0
			}
			obs, err := w.observe(ctx, base)
			if err != nil {
				t.Fatal(err)
			}
			em.Emit(map[string]any{"h": h.H, "i": i + 1, "act": s.Act, "args": a, "res": res, "id": got, "obs": obs})
		}
	}
}
