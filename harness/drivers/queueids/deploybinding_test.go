//go:build verif

// Driver for specs/DeployBinding.tla (E1): an outgoing batch and a queued turnstone message live in the chain state while
// the bridge is re-deployed; signatures over the bytes bound to each deployment are offered to the REAL handlers.
//
//	Build(batch)    msgServer.SendToRemote + Keeper.BuildOutgoingTXBatch
//	Build(message)  Consensus.PutMessageInQueue (turnstone queue), turnstone id = the chain's current unique id
//	Redeploy        Evm.ActivateChainReferenceID with the next smart contract id and unique id "compass-eth-a-<n>"
//	Offer(batch,v,d)    validator v signs OutgoingTxBatch.GetCheckpoint("compass-eth-a-<d>") of the stored batch -> msgServer.ConfirmBatch
//	Offer(message,v,d)  validator v signs GetBytesToSign of the stored message with turnstone id "compass-eth-a-<d>" -> consensus msgServer.AddMessagesSignatures
//
// Recorded: the result, the chain's current deployment, and the signatures really stored (which deployment's bytes each is over).
package queueids

import (
	"bytes"
	"encoding/hex"
	"encoding/json"
	"fmt"
	"strconv"
	"strings"
	"testing"

	codectypes "github.com/cosmos/cosmos-sdk/codec/types"
	"github.com/cosmos/cosmos-sdk/crypto/keys/secp256k1"
	sdk "github.com/cosmos/cosmos-sdk/types"
	"github.com/ethereum/go-ethereum/crypto"
	consensuskeeper "github.com/palomachain/paloma/v2/x/consensus/keeper"
	"github.com/palomachain/paloma/v2/x/consensus/keeper/consensus"
	consensustypes "github.com/palomachain/paloma/v2/x/consensus/types"
	evmtypes "github.com/palomachain/paloma/v2/x/evm/types"
	skywaykeeper "github.com/palomachain/paloma/v2/x/skyway/keeper"
	st "github.com/palomachain/paloma/v2/x/skyway/types"
	valsettypes "github.com/palomachain/paloma/v2/x/valset/types"
	"verifharness/drv"
	"verifharness/env"
)

const (
	dbChain    = "eth-a"
	dbContract = "0x1111111111111111111111111111111111111111"
	dbDenom    = "utoka"
	ethPrefix  = "\x19Ethereum Signed Message:\n32"
)

type dbArgs struct {
	Item string `json:"item"`
	Val  int    `json:"val"`
	Over int    `json:"over"`
}

func depID(d int) string { return fmt.Sprintf("compass-%s-%d", dbChain, d) }

func depOf(id string) int {
	n, err := strconv.Atoi(strings.TrimPrefix(id, "compass-"+dbChain+"-"))
	if err != nil {
		return 0
	}
	return n
}

func metaOf(a sdk.AccAddress) valsettypes.MsgMetadata {
	return valsettypes.MsgMetadata{Creator: a.String(), Signers: []string{a.String()}}
}

type dbRun struct {
	e       *env.E1
	cmsg    consensustypes.MsgServer
	ctx     sdk.Context
	user    sdk.AccAddress
	msgID   uint64
	offered map[string]int // signature (hex) -> deployment whose bytes it is over
}

func (r *dbRun) curDep() int {
	ci, err := r.e.Evm.GetChainInfo(r.ctx, dbChain)
	if err != nil {
		panic(err)
	}
	return depOf(string(ci.SmartContractUniqueID))
}

func (r *dbRun) batch() *st.InternalOutgoingTxBatch {
	bs, err := r.e.Skyway.GetOutgoingTxBatches(r.ctx)
	if err != nil {
		panic(err)
	}
	if len(bs) == 0 {
		return nil
	}
	return &bs[0]
}

func (r *dbRun) message() consensustypes.QueuedSignedMessageI {
	if r.msgID == 0 {
		return nil
	}
	msgs, err := r.e.Consensus.GetMessagesFromQueue(r.ctx, queueName(dbChain, "turnstone"), 0)
	if err != nil {
		panic(err)
	}
	for _, m := range msgs {
		if m.GetId() == r.msgID {
			return m
		}
	}
	return nil
}

func (r *dbRun) valIdx(acc string, val sdk.ValAddress) int {
	for i, v := range r.e.Vals {
		if v.Acc.String() == acc || (val != nil && v.Val.Equals(val)) {
			return i + 1
		}
	}
	return 0
}

func (r *dbRun) observe() map[string]any {
	sigs := []any{}
	if b := r.batch(); b != nil {
		cs, err := r.e.Skyway.GetBatchConfirmByNonceAndTokenContract(r.ctx, b.BatchNonce, b.TokenContract)
		if err != nil {
			panic(err)
		}
		for _, c := range cs {
			sigs = append(sigs, map[string]any{"item": "batch", "val": r.valIdx(c.Orchestrator, nil), "over": r.offered[c.Signature]})
		}
	}
	if m := r.message(); m != nil {
		for _, sd := range m.GetSignData() {
			sigs = append(sigs, map[string]any{"item": "message", "val": r.valIdx("", sd.ValAddress), "over": r.offered[hex.EncodeToString(sd.Signature)]})
		}
	}
	return map[string]any{"dep": r.curDep(), "sigs": sigs}
}

func TestDriveDeployBinding(t *testing.T) {
	hs, err := drv.LoadHistories()
	if err != nil {
		t.Fatal(err)
	}
	em, err := drv.NewEmitter()
	if err != nil {
		t.Fatal(err)
	}
	defer em.Close()
	e := env.NewE1(env.E1Options{Seed: drv.Seed(), Chains: []string{dbChain}, Powers: []int64{10, 10, 10}})
	h := skywaykeeper.NewSkywayProposalHandler(e.Skyway)
	if err := h(e.Ctx, &st.SetERC20ToDenomProposal{Title: "t", Description: "d", ChainReferenceId: dbChain, Erc20: dbContract, Denom: dbDenom}); err != nil {
		t.Fatal(err)
	}
	user := sdk.AccAddress(secp256k1.GenPrivKeyFromSecret([]byte(fmt.Sprintf("verif-deploybinding-user-%d", drv.Seed()))).PubKey().Address())
	e.Fund(e.Ctx, user, sdk.NewCoins(sdk.NewInt64Coin(dbDenom, 1000000)))
	cmsg := consensuskeeper.NewMsgServerImpl(*e.Consensus)
	for _, hist := range hs {
		ctx, _ := e.Ctx.CacheContext()
		r := &dbRun{e: e, cmsg: cmsg, ctx: ctx.WithBlockHeight(1001), user: user, offered: map[string]int{}}
		em.Emit(map[string]any{"h": hist.H, "i": 0, "act": "Init", "obs": r.observe()})
		for i, s := range hist.Steps {
			var a dbArgs
			if err := json.Unmarshal(s.Args, &a); err != nil {
				t.Fatal(err)
			}
			res, detail, builtUnder := "ok", "", 0
			switch s.Act {
			case "Build":
				err, _ := env.RunMsg(r.ctx, func(ctx sdk.Context) error {
					if a.Item == "batch" {
						if _, err := e.SkywayMsg.SendToRemote(ctx, &st.MsgSendToRemote{EthDest: "0x00000000000000000000000000000000000000aa",
							Amount: sdk.NewInt64Coin(dbDenom, 100), ChainReferenceId: dbChain, Metadata: metaOf(user)}); err != nil {
							return err
						}
						c, err := st.NewEthAddress(dbContract)
						if err != nil {
							return err
						}
						_, err = e.Skyway.BuildOutgoingTXBatch(ctx, dbChain, *c, 100)
						return err
					}
					ci, err := e.Evm.GetChainInfo(ctx, dbChain)
					if err != nil {
						return err
					}
					v := e.Vals[0]
					id, err := e.Consensus.PutMessageInQueue(ctx, queueName(dbChain, "turnstone"), &evmtypes.Message{
						TurnstoneID: string(ci.SmartContractUniqueID), ChainReferenceID: dbChain, Assignee: v.Val.String(), AssigneeRemoteAddress: v.EthAddr.Hex(),
						Action: &evmtypes.Message_SubmitLogicCall{SubmitLogicCall: &evmtypes.SubmitLogicCall{
							HexContractAddress: dbContract, Abi: []byte("[]"), Payload: []byte{1, 2, 3, 4}, Deadline: 1704110400, SenderAddress: v.Acc.Bytes(), ContractAddress: v.Acc.Bytes(),
							Fees: &evmtypes.Fees{RelayerFee: 1, CommunityFee: 1, SecurityFee: 1}}},
					}, &consensus.PutOptions{RequireSignatures: true})
					r.msgID = id
					return err
				})
				if err != nil {
					res, detail = "err", err.Error()
					break
				}
				if a.Item == "batch" {
					b := r.batch()
					if b == nil {
						res, detail = "err", "no batch built"
						break
					}
					ext := b.ToExternal()
					for d := 1; d <= r.curDep(); d++ {
						if cp, err := ext.GetCheckpoint(depID(d)); err == nil && bytes.Equal(cp, b.BytesToSign) {
							builtUnder = d
						}
					}
				} else if m := r.message(); m != nil {
					cm, err := m.ConsensusMsg(e.Cdc)
					if err != nil {
						t.Fatal(err)
					}
					builtUnder = depOf(cm.(*evmtypes.Message).TurnstoneID)
				}
			case "Redeploy":
				n := r.curDep() + 1
				if err := e.Evm.ActivateChainReferenceID(r.ctx, dbChain, &evmtypes.SmartContract{Id: uint64(n)}, fmt.Sprintf("0x%040x", 0xc0de00+n), []byte(depID(n))); err != nil {
					res, detail = "err", err.Error()
				}
			case "Offer":
				v := e.Vals[a.Val-1]
				var opErr error
				if a.Item == "batch" {
					b := r.batch()
					if b == nil {
						res, detail = "err", "no batch"
						break
					}
					ext := b.ToExternal()
					cp, err := ext.GetCheckpoint(depID(a.Over))
					if err != nil {
						t.Fatal(err)
					}
					sig, err := st.NewEthereumSignature(cp, v.EthKey)
					if err != nil {
						t.Fatal(err)
					}
					r.offered[hex.EncodeToString(sig)] = a.Over
					opErr, _ = env.RunMsg(r.ctx, func(ctx sdk.Context) error {
						_, err := e.SkywayMsg.ConfirmBatch(ctx, &st.MsgConfirmBatch{Nonce: b.BatchNonce, TokenContract: b.TokenContract.GetAddress().Hex(), EthSigner: v.EthAddr.Hex(),
							Orchestrator: v.Acc.String(), Signature: hex.EncodeToString(sig), Metadata: metaOf(v.Acc)})
						return err
					})
				} else {
					m := r.message()
					if m == nil {
						res, detail = "err", "no message"
						break
					}
					cm, err := m.ConsensusMsg(e.Cdc)
					if err != nil {
						t.Fatal(err)
					}
					// the same message as the bridge deployment <over> would be asked to verify it
					alt := *(cm.(*evmtypes.Message))
					alt.TurnstoneID = depID(a.Over)
					anyAlt, err := codectypes.NewAnyWithValue(&alt)
					if err != nil {
						t.Fatal(err)
					}
					q := &consensustypes.QueuedSignedMessage{Id: m.GetId(), Msg: anyAlt, GasEstimate: m.GetGasEstimate()}
					bz, err := q.GetBytesToSign(e.Cdc)
					if err != nil {
						t.Fatal(err)
					}
					sig, err := crypto.Sign(crypto.Keccak256(append([]byte(ethPrefix), bz...)), v.EthKey)
					if err != nil {
						t.Fatal(err)
					}
					r.offered[hex.EncodeToString(sig)] = a.Over
					opErr, _ = env.RunMsg(r.ctx, func(ctx sdk.Context) error {
						_, err := r.cmsg.AddMessagesSignatures(ctx, &consensustypes.MsgAddMessagesSignatures{Metadata: metaOf(v.Acc),
							SignedMessages: []*consensustypes.ConsensusMessageSignature{{Id: m.GetId(), QueueTypeName: queueName(dbChain, "turnstone"), Signature: sig, SignedByAddress: v.EthAddr.Hex()}}})
						return err
					})
				}
				if opErr != nil {
					detail = opErr.Error()
					switch {
					case strings.Contains(detail, "duplicate") || strings.Contains(detail, "already signed"):
						res = "dup"
					case strings.Contains(detail, "signature verification failed") || strings.Contains(detail, "invalid signature") || strings.Contains(strings.ToLower(detail), "signature is invalid"):
						res = "refused"
					default:
						res = "err"
					}
				}
			default:
				t.Fatalf("unknown action %q", s.Act)
			}
			if len(detail) > 200 {
				detail = detail[:200]
			}
			em.Emit(map[string]any{"h": hist.H, "i": i + 1, "act": s.Act, "args": a, "res": res, "detail": detail, "built_under": builtUnder, "obs": r.observe()})
		}
	}
}
