//go:build verif

// Records (inputs, real output) samples of arithmetic at real magnitudes (beyond TLC's 32-bit integers) for
// evaluation by Apalache against the TLA+ operators: gas-estimate median/election and the 2/3 share quorum.
package arith

import (
	"context"
	"encoding/json"
	"errors"
	"math/big"
	"math/rand"
	"os"
	"sort"
	"testing"

	"cosmossdk.io/log"
	sdkmath "cosmossdk.io/math"
	sdk "github.com/cosmos/cosmos-sdk/types"
	"github.com/palomachain/paloma/v2/util/libcons"
	"github.com/palomachain/paloma/v2/util/palomath"
	valsettypes "github.com/palomachain/paloma/v2/x/valset/types"
	"verifharness/drv"
)

type est struct {
	a sdk.ValAddress
	v uint64
}

func (e est) GetValAddress() sdk.ValAddress { return e.a }
func (e est) GetValue() uint64              { return e.v }

type lp struct{}

func (lp) Logger(context.Context) log.Logger { return log.NewNopLogger() }

func TestArithSamples(t *testing.T) {
	out := os.Getenv("VERIF_TRACE")
	if out == "" {
		t.Skip("VERIF_TRACE not set")
	}
	rnd := rand.New(rand.NewSource(drv.Seed()))
	n := 120
	if os.Getenv("VERIF_TIER") == "thorough" {
		n = 600
	}
	var samples []map[string]any
	edge := []uint64{1, 2, 3, 1 << 31, 1<<32 - 1, 1 << 32, 1<<53 + 1, 1<<62 - 1, 1 << 62, 1<<63 - 1, 1 << 63, 1<<63 + 1, 1<<64 - 2, 1<<64 - 1}
	pick := func() uint64 {
		switch rnd.Intn(3) {
		case 0:
			return edge[rnd.Intn(len(edge))]
		case 1:
			return rnd.Uint64()
		default:
			return uint64(rnd.Intn(1_000_000)) + 1
		}
	}
	for i := 0; i < n; i++ {
		k := 1 + rnd.Intn(6)
		vals := make([]uint64, k)
		for j := range vals {
			vals[j] = pick()
		}
		// snapshot with k members and big shares; all members submit
		snap := &valsettypes.Snapshot{TotalShares: sdkmath.ZeroInt()}
		ests := make([]libcons.GasEstimate, k)
		for j := 0; j < k; j++ {
			a := sdk.ValAddress([]byte{byte(j + 1), 1, 2, 3, 4, 5, 6, 7, 8, 9, 10, 11, 12, 13, 14, 15, 16, 17, 18, 19})
			sh := sdkmath.NewIntFromBigInt(new(big.Int).Lsh(big.NewInt(int64(1+rnd.Intn(1000))), uint(rnd.Intn(190))))
			snap.Validators = append(snap.Validators, valsettypes.Validator{Address: a, ShareCount: sh})
			snap.TotalShares = snap.TotalShares.Add(sh)
			ests[j] = est{a, vals[j]}
		}
		cc := libcons.New(func(context.Context) (*valsettypes.Snapshot, error) { return snap, nil }, nil)
		elected, err := cc.VerifyGasEstimates(context.Background(), lp{}, ests)
		sorted := append([]uint64{}, vals...)
		sort.Slice(sorted, func(a, b int) bool { return sorted[a] < sorted[b] })
		ss := make([]string, k)
		for j, v := range sorted {
			ss[j] = new(big.Int).SetUint64(v).String()
		}
		e := ""
		if err != nil {
			e = err.Error()
		}
		samples = append(samples, map[string]any{"kind": "median", "sorted": ss, "median": new(big.Int).SetUint64(palomath.Median(vals)).String(),
			"elected": new(big.Int).SetUint64(elected).String(), "err": e})
		// quorum sample: random subset submits, shares huge
		sum := sdkmath.ZeroInt()
		var sub []libcons.GasEstimate
		for j := 0; j < k; j++ {
			if rnd.Intn(3) > 0 {
				sub = append(sub, est{snap.Validators[j].Address, 5})
				sum = sum.Add(snap.Validators[j].ShareCount)
			}
		}
		// an outsider never counts
		sub = append(sub, est{sdk.ValAddress([]byte{0xee, 1, 2, 3, 4, 5, 6, 7, 8, 9, 10, 11, 12, 13, 14, 15, 16, 17, 18, 19}), 5})
		_, err = cc.VerifyGasEstimates(context.Background(), lp{}, sub)
		samples = append(samples, map[string]any{"kind": "quorum", "sum": sum.String(), "total": snap.TotalShares.String(),
			"reached": !errors.Is(err, libcons.ErrConsensusNotAchieved)})
	}
	// exact boundary: total = 3q + r
	for _, tot := range []int64{3, 4, 5, 7, 8, 10, 11, 30, 31, 32} {
		for s := int64(0); s <= tot; s++ {
			snap := &valsettypes.Snapshot{TotalShares: sdkmath.NewInt(tot)}
			a := sdk.ValAddress([]byte{1, 1, 2, 3, 4, 5, 6, 7, 8, 9, 10, 11, 12, 13, 14, 15, 16, 17, 18, 19})
			b := sdk.ValAddress([]byte{2, 1, 2, 3, 4, 5, 6, 7, 8, 9, 10, 11, 12, 13, 14, 15, 16, 17, 18, 19})
			snap.Validators = []valsettypes.Validator{{Address: a, ShareCount: sdkmath.NewInt(s)}, {Address: b, ShareCount: sdkmath.NewInt(tot - s)}}
			cc := libcons.New(func(context.Context) (*valsettypes.Snapshot, error) { return snap, nil }, nil)
			_, err := cc.VerifyGasEstimates(context.Background(), lp{}, []libcons.GasEstimate{est{a, 7}})
			samples = append(samples, map[string]any{"kind": "quorum", "sum": sdkmath.NewInt(s).String(), "total": sdkmath.NewInt(tot).String(),
				"reached": !errors.Is(err, libcons.ErrConsensusNotAchieved)})
		}
	}
	f, err := os.Create(out)
	if err != nil {
		t.Fatal(err)
	}
	defer f.Close()
	if err := json.NewEncoder(f).Encode(samples); err != nil {
		t.Fatal(err)
	}
}
