//go:build verif

// Driver for specs/LightNode.tla: executes TLC-generated histories of light-node licence requests against the
// full application (E2) with two active EVM chains. Every action is exactly one block:
//   - AddLicense / Register / Auth / Gift(tx): one really signed transaction,
//   - Sale: one signed MsgLightNodeSaleClaim of every validator in one block, tallied by the skyway end blocker,
//   - SetFunders / SetFeegranter / SetSale: the governance proposal handlers of x/paloma and x/skyway called on
//     the set-up context (what an executed proposal does), committed by the block,
//   - Gift(keeper): a keeper-level bank transfer (SendCoinsFromAccountToModule) into the module account (what
//     another module could do),
//   - Advance: a block whose time is the requested point of a client's vesting window.
//
// The driver has no expectations: it records results and the projection of bank / auth / paloma / feegrant /
// skyway state after every block.
package lightnode

import (
	"encoding/json"
	"fmt"
	"hash/crc32"
	"strings"
	"testing"
	"time"

	"cosmossdk.io/math"
	"cosmossdk.io/x/feegrant"
	abci "github.com/cometbft/cometbft/abci/types"
	"github.com/cosmos/cosmos-sdk/crypto/keys/secp256k1"
	sdk "github.com/cosmos/cosmos-sdk/types"
	authtypes "github.com/cosmos/cosmos-sdk/x/auth/types"
	vestingtypes "github.com/cosmos/cosmos-sdk/x/auth/vesting/types"
	banktypes "github.com/cosmos/cosmos-sdk/x/bank/types"
	govv1beta1 "github.com/cosmos/cosmos-sdk/x/gov/types/v1beta1"
	palomamodule "github.com/palomachain/paloma/v2/x/paloma"
	palomatypes "github.com/palomachain/paloma/v2/x/paloma/types"
	skywaykeeper "github.com/palomachain/paloma/v2/x/skyway/keeper"
	skywaytypes "github.com/palomachain/paloma/v2/x/skyway/types"
	valsettypes "github.com/palomachain/paloma/v2/x/valset/types"
	"verifharness/drv"
	"verifharness/env"
)

const (
	unit   = 1_000_000
	nUsers = 3 // ids 1..3 (3 = the user whose address is also tried as a client address); user index 3 = fee granter
	fgIdx  = 3
)

// denominations: 1 = the bond denom, 2 = a second, genesis-funded denom (licences may be paid in ANY denom)
var denomNames = []string{env.BondDenom, "uusdc"}
var userFunds = [][]int64{{3 * unit, unit}, {unit / 2, 2 * unit}, {2 * unit, 0}, {unit, 0}}
var freshIDs = []int{11, 12}
var tracked = []int{11, 12, 3} // client addresses observed
// three active chains (store keys sort bnb-main < eth-main < matic-main)
var chainNames = map[int]string{1: "eth-main", 2: "bnb-main", 3: "matic-main"}

const nChains = 3

var contracts = map[int]string{1: "0x1111111111111111111111111111111111111111", 2: "0x2222222222222222222222222222222222222222"}

type args struct {
	Who int    `json:"who"`
	As  int    `json:"as"`
	C   int    `json:"c"`
	Amt int    `json:"amt"`
	M   int    `json:"m"`
	Ch  int    `json:"ch"`
	K   int    `json:"k"`
	Q   int    `json:"q"`
	Via string `json:"via"`
	D   int    `json:"d"`
	Sc  []int  `json:"sc"` // SetSale: the complete list, contract id per chain 1..nChains (0 = chain not listed)
}

type world struct {
	e     *env.E2
	ew    *env.EvmWorld
	fresh map[int]*env.Account
	gen   time.Time
}

func newWorld() *world {
	var users []sdk.Coins
	for _, f := range userFunds {
		cs := sdk.NewCoins()
		for d, x := range f {
			if x > 0 {
				cs = cs.Add(sdk.NewInt64Coin(denomNames[d], x))
			}
		}
		users = append(users, cs)
	}
	e := env.NewE2(env.E2Options{Seed: drv.Seed(), Powers: []int64{10, 10, 10}, Users: users})
	ew, err := e.AddEvmChains(env.EvmChainSpec{RefID: chainNames[1]}, env.EvmChainSpec{RefID: chainNames[2]}, env.EvmChainSpec{RefID: chainNames[3]})
	if err != nil {
		panic(err)
	}
	w := &world{e: e, ew: ew, fresh: map[int]*env.Account{}, gen: e.Opts.GenTime}
	for _, id := range freshIDs {
		priv := secp256k1.GenPrivKeyFromSecret([]byte(fmt.Sprintf("verif-c18-client-%d-%d", drv.Seed(), id)))
		w.fresh[id] = &env.Account{Idx: -1, Name: fmt.Sprintf("client%d", id), Priv: priv, Addr: sdk.AccAddress(priv.PubKey().Address())}
	}
	return w
}

// acc returns the signing account of an id (users 1..3, fresh clients 11, 12) with number / sequence from state.
func (w *world) acc(id int) *env.Account {
	if id >= 1 && id <= nUsers {
		return w.e.User(id - 1)
	}
	a, ok := w.fresh[id]
	if !ok {
		return nil
	}
	a.Num, a.Seq = 0, 0
	if st := w.e.App.AccountKeeper.GetAccount(w.e.Ctx(), a.Addr); st != nil {
		a.Num, a.Seq = st.GetAccountNumber(), st.GetSequence()
	}
	return a
}

func (w *world) addr(id int) sdk.AccAddress {
	if a := w.acc(id); a != nil {
		return a.Addr
	}
	return nil
}

func (w *world) userIdx(a sdk.AccAddress) int {
	for i := 1; i <= nUsers+1; i++ {
		if w.e.User(i - 1).Addr.Equals(a) {
			return i
		}
	}
	return -1
}

func small(x math.Int) int {
	const lim = 2_000_000_000
	if x.GT(math.NewInt(lim)) {
		return lim
	}
	if x.LT(math.NewInt(-lim)) {
		return -lim
	}
	return int(x.Int64())
}

func gcd(a, b int64) int64 {
	for b != 0 {
		a, b = b, a%b
	}
	return a
}

func (w *world) rel(t int64) int { return int(t - w.gen.Unix()) }

// perDenom projects coins on the tracked denominations; extra = number of other denominations present.
func perDenom(cs sdk.Coins) (out []int, extra int) {
	for _, d := range denomNames {
		out = append(out, small(cs.AmountOf(d)))
	}
	for _, c := range cs {
		if denomIdx(c.Denom) < 0 && !c.Amount.IsZero() {
			extra++
		}
	}
	return
}

func denomIdx(d string) int {
	for i, n := range denomNames {
		if n == d {
			return i + 1
		}
	}
	return -1
}

func (w *world) observe() map[string]any {
	e := w.e
	ctx := e.Ctx()
	a := e.App
	modAddr := a.AccountKeeper.GetModuleAddress(palomatypes.ModuleName)
	now := e.Time
	obs := map[string]any{"now": w.rel(now.Unix())}
	// the escrow account per tracked denomination; escrowx: anything else in it
	obs["escrow"], obs["escrowx"] = perDenom(a.BankKeeper.GetAllBalances(ctx, modAddr))
	lics, err := a.PalomaKeeper.AllLightNodeClientLicenses(ctx)
	if err != nil {
		panic(err)
	}
	obs["nlic"] = len(lics)
	licOf := map[string]*palomatypes.LightNodeClientLicense{}
	for _, l := range lics {
		licOf[l.ClientAddress] = l
	}
	fgAddr := e.User(fgIdx).Addr
	var cl []map[string]any
	for _, id := range tracked {
		ad := w.addr(id)
		r := map[string]any{"c": id, "lic": 0, "lamt": 0, "lm": 0, "lden": 0, "acct": 0, "start": 0, "end": 0, "endm": 0, "orig": 0, "oden": 0, "num": 0, "den": 1,
			"client": 0, "grant": 0, "gspend": 0}
		if l, ok := licOf[ad.String()]; ok {
			r["lic"], r["lamt"], r["lm"], r["lden"] = 1, small(l.Amount.Amount), int(l.VestingMonths), denomIdx(l.Amount.Denom)
		}
		switch acc := a.AccountKeeper.GetAccount(ctx, ad).(type) {
		case nil:
		case *authtypes.BaseAccount:
			r["acct"] = 1
		case *vestingtypes.ContinuousVestingAccount:
			r["acct"] = 2
			r["start"], r["end"] = w.rel(acc.StartTime), w.rel(acc.EndTime)
			r["orig"], r["oden"] = -1, -1
			if len(acc.OriginalVesting) == 1 {
				r["orig"], r["oden"] = small(acc.OriginalVesting[0].Amount), denomIdx(acc.OriginalVesting[0].Denom)
			}
			st := time.Unix(acc.StartTime, 0).UTC()
			r["endm"] = -1
			for m := 0; m <= 120; m++ {
				if st.AddDate(0, m, 0).Unix() == acc.EndTime {
					r["endm"] = m
					break
				}
			}
			x, y := now.Unix()-acc.StartTime, acc.EndTime-acc.StartTime
			if x < 0 {
				x = 0
			}
			if x > y {
				x = y
			}
			if y > 0 {
				g := gcd(x, y)
				if g == 0 {
					g = 1
				}
				r["num"], r["den"] = int(x/g), int(y/g)
			} else if now.Unix() > acc.StartTime {
				r["num"], r["den"] = 1, 1 // a window of length 0 (0 vesting months) is over after its instant
			}
			if !acc.DelegatedFree.IsZero() || !acc.DelegatedVesting.IsZero() {
				r["acct"] = 3
			}
		default:
			r["acct"] = 3
		}
		var x1, x2, x3 int
		r["locked"], x1 = perDenom(a.BankKeeper.LockedCoins(ctx, ad))
		r["bal"], x2 = perDenom(a.BankKeeper.GetAllBalances(ctx, ad))
		r["spendable"], x3 = perDenom(a.BankKeeper.SpendableCoins(ctx, ad))
		r["balx"] = x1 + x2 + x3
		if _, err := a.PalomaKeeper.GetLightNodeClient(ctx, ad.String()); err == nil {
			r["client"] = 1
		}
		if al, err := a.FeeGrantKeeper.GetAllowance(ctx, fgAddr, ad); err == nil && al != nil {
			r["grant"] = 1
			if b, ok := al.(*feegrant.BasicAllowance); ok && b.Expiration == nil {
				r["gspend"] = small(b.SpendLimit.AmountOf(env.BondDenom))
			} else {
				r["gspend"] = -1
			}
		}
		cl = append(cl, r)
	}
	obs["cl"] = cl
	var ub [][]int
	for i := 0; i <= nUsers; i++ {
		b, _ := perDenom(a.BankKeeper.GetAllBalances(ctx, e.User(i).Addr))
		ub = append(ub, b)
	}
	obs["ubal"] = ub
	fl := []int{}
	if f, err := a.PalomaKeeper.LightNodeClientFunders(ctx); err == nil && f != nil {
		for _, x := range f.Accounts {
			fl = append(fl, w.userIdx(x))
		}
	}
	obs["funders"] = fl
	obs["feegr"] = 0
	if f, err := a.PalomaKeeper.LightNodeClientFeegranter(ctx); err == nil && f != nil {
		obs["feegr"] = w.userIdx(f.Account)
	}
	sc := make([]int, nChains)
	nsc := 0
	if all, err := a.SkywayKeeper.AllLightNodeSaleContracts(ctx); err == nil {
		nsc = len(all)
		for _, c := range all {
			for ch, name := range chainNames {
				if c.ChainReferenceId == name {
					sc[ch-1] = -1
					for k, ad := range contracts {
						if strings.EqualFold(ad, c.ContractAddress) {
							sc[ch-1] = k
						}
					}
				}
			}
		}
	}
	obs["sc"], obs["nsc"] = sc, nsc
	var nonces []int
	for ch := 1; ch <= nChains; ch++ {
		n, err := a.SkywayKeeper.GetLastObservedSkywayNonce(ctx, chainNames[ch])
		if err != nil {
			panic(err)
		}
		nonces = append(nonces, int(n))
	}
	obs["nonce"] = nonces
	return obs
}

type outcome struct {
	ok       bool
	cs       string
	code     int
	log      string
	blockErr error
}

func fromTx(r *abci.ExecTxResult, err error) outcome {
	if err != nil {
		return outcome{blockErr: err}
	}
	if r.Code == 0 {
		return outcome{ok: true}
	}
	return outcome{cs: r.Codespace, code: int(r.Code), log: firstLine(r.Log)}
}

func (w *world) md(a args) valsettypes.MsgMetadata {
	return valsettypes.MsgMetadata{Creator: w.addr(a.As).String(), Signers: []string{w.addr(a.Who).String()}}
}

func (w *world) setup(f func(ctx sdk.Context) error) outcome {
	err := w.e.Setup(f)
	if _, berr := w.e.DeliverBlock(nil); berr != nil {
		return outcome{blockErr: berr}
	}
	if err != nil {
		return outcome{cs: "setup", code: 1, log: firstLine(err.Error())}
	}
	return outcome{ok: true}
}

func (w *world) do(act string, a args) outcome {
	e := w.e
	app := e.App
	switch act {
	case "AddLicense":
		if a.D < 1 || a.D > len(denomNames) {
			panic(fmt.Sprintf("AddLicense: denomination %d", a.D))
		}
		return fromTx(e.RunAs(w.acc(a.Who), &palomatypes.MsgAddLightNodeClientLicense{Metadata: w.md(a), ClientAddress: w.addr(a.C).String(),
			Amount: sdk.NewInt64Coin(denomNames[a.D-1], int64(a.Amt)*unit), VestingMonths: uint32(a.M)}))
	case "Register":
		return fromTx(e.RunAs(w.acc(a.Who), &palomatypes.MsgRegisterLightNodeClient{Metadata: w.md(a)}))
	case "Auth":
		return fromTx(e.RunAs(w.acc(a.Who), &palomatypes.MsgAuthLightNodeClient{Metadata: w.md(a)}))
	case "Sale":
		chain := chainNames[a.Ch]
		ctx := e.Ctx()
		before, err := app.SkywayKeeper.GetLastObservedSkywayNonce(ctx, chain)
		if err != nil {
			panic(err)
		}
		var txs [][]byte
		for i := range e.Vals {
			v := &e.Vals[i]
			n, err := app.SkywayKeeper.GetLastSkywayNonceByValidator(ctx, v.ValAddr, chain)
			if err != nil {
				panic(err)
			}
			named := contracts[a.K]
			if dissent && i == 0 && (a.K == 1 || a.K == 2) {
				named = contracts[3-a.K]
			}
			txs = append(txs, e.SignTx(v.Acc, &skywaytypes.MsgLightNodeSaleClaim{
				Metadata:   valsettypes.MsgMetadata{Creator: v.Acc.Bech32(), Signers: []string{v.Acc.Bech32()}},
				EventNonce: n + 1, EthBlockHeight: 1000 + n + 1, Orchestrator: v.Acc.Bech32(), ChainReferenceId: chain, SkywayNonce: n + 1,
				ClientAddress: w.addr(a.C).String(), Amount: math.NewInt(int64(a.Amt)), SmartContractAddress: named, CompassId: w.ew.CompassOf(chain)}))
		}
		res, err := e.DeliverBlock(txs)
		if err != nil {
			return outcome{blockErr: err}
		}
		for _, r := range res.TxResults {
			if r.Code != 0 {
				return outcome{cs: r.Codespace, code: int(r.Code), log: firstLine(r.Log)}
			}
		}
		after, err := app.SkywayKeeper.GetLastObservedSkywayNonce(e.Ctx(), chain)
		if err != nil {
			panic(err)
		}
		if after != before+1 {
			return outcome{cs: "tally", code: 1, log: fmt.Sprintf("last observed nonce %d -> %d", before, after)}
		}
		return outcome{ok: true}
	case "SetFunders":
		var fs []string
		for _, id := range []int{a.Who, a.As} {
			if id != 0 {
				fs = append(fs, w.addr(id).String())
			}
		}
		return w.setup(func(ctx sdk.Context) error {
			return palomamodule.NewPalomaProposalHandler(app.PalomaKeeper)(ctx, govv1beta1.Content(&palomatypes.SetLightNodeClientFundersProposal{Title: "t", Description: "d", FunderAccounts: fs}))
		})
	case "SetFeegranter":
		return w.setup(func(ctx sdk.Context) error {
			return palomamodule.NewPalomaProposalHandler(app.PalomaKeeper)(ctx, govv1beta1.Content(&palomatypes.SetLightNodeClientFeegranterProposal{Title: "t", Description: "d", FeegranterAccount: e.User(fgIdx).Bech32()}))
		})
	case "SetSale":
		// the proposal carries the COMPLETE new list
		var cs []*skywaytypes.LightNodeSaleContract
		if len(a.Sc) != nChains {
			panic(fmt.Sprintf("SetSale: list %v", a.Sc))
		}
		for i, k := range a.Sc {
			if k != 0 {
				cs = append(cs, &skywaytypes.LightNodeSaleContract{ChainReferenceId: chainNames[i+1], ContractAddress: contracts[k]})
			}
		}
		return w.setup(func(ctx sdk.Context) error {
			return skywaykeeper.NewSkywayProposalHandler(app.SkywayKeeper)(ctx, govv1beta1.Content(&skywaytypes.SetLightNodeSaleContractsProposal{Title: "t", Description: "d", LightNodeSaleContracts: cs}))
		})
	case "Gift":
		mod := app.AccountKeeper.GetModuleAddress(palomatypes.ModuleName)
		coins := sdk.NewCoins(sdk.NewInt64Coin(env.BondDenom, int64(a.Amt)*unit))
		if a.Via == "tx" {
			return fromTx(e.RunAs(w.acc(a.Who), banktypes.NewMsgSend(w.addr(a.Who), mod, coins)))
		}
		// the way a module moves coins into a module account (creates the module account if it does not exist yet;
		// a raw SendCoins to the module ADDRESS would plant a plain account there and break GetModuleAccount)
		return w.setup(func(ctx sdk.Context) error {
			return app.BankKeeper.SendCoinsFromAccountToModule(ctx, w.addr(a.Who), palomatypes.ModuleName, coins)
		})
	case "Advance":
		step := e.Opts.BlockTime
		if acc, ok := app.AccountKeeper.GetAccount(e.Ctx(), w.addr(a.C)).(*vestingtypes.ContinuousVestingAccount); ok {
			target := time.Unix(acc.StartTime+int64(a.Q)*(acc.EndTime-acc.StartTime)/4, 0)
			if d := target.Sub(e.Time); d > step {
				e.Opts.BlockTime = d
			}
		}
		_, err := e.DeliverBlock(nil)
		e.Opts.BlockTime = step
		if err != nil {
			return outcome{blockErr: err}
		}
		return outcome{ok: true}
	}
	panic("unknown action " + act)
}

func TestDriveLightNode(t *testing.T) {
	hs, err := drv.LoadHistories()
	if err != nil {
		t.Fatal(err)
	}
	em, err := drv.NewEmitter()
	if err != nil {
		t.Fatal(err)
	}
	defer em.Close()
	t0 := time.Now()
	for _, h := range hs {
		runHistory(t, em, h)
	}
	t.Logf("%d histories in %v", len(hs), time.Since(t0))
}

// dissent: in this history the FIRST validator to report a sale names the other sale contract than the remaining
// validators (whose report is the one the generated Sale step stands for and who hold more than 66% of the power).
// The chain must act on what the quorum reported, so nothing observable changes. Which histories run that way is a
// function of the history itself (stable under sampling and replay).
var dissent bool

func historyDissent(h drv.History) bool {
	c := crc32.NewIEEE()
	for _, s := range h.Steps {
		c.Write([]byte(s.Act))
		c.Write(s.Args)
	}
	return c.Sum32()%2 == 1
}

func runHistory(t *testing.T, em *drv.Emitter, h drv.History) {
	dissent = historyDissent(h)
	w := newWorld()
	defer w.e.Close()
	steps := h.Steps
	if len(steps) > 0 && steps[0].Act == "Init" {
		steps = steps[1:]
	}
	em.Emit(map[string]any{"h": h.H, "i": 0, "act": "Init", "obs": w.observe()})
	for i, st := range steps {
		var a args
		if err := json.Unmarshal(st.Args, &a); err != nil {
			t.Fatal(err)
		}
		if a.Sc == nil {
			a.Sc = []int{}
		}
		ev := map[string]any{"h": h.H, "i": i + 1, "act": st.Act, "args": a, "res": "fail", "cs": "", "code": 0, "log": ""}
		o := w.do(st.Act, a)
		if o.blockErr != nil {
			ev["res"], ev["cs"], ev["code"], ev["log"] = "blockfail", "block", -1, firstLine(o.blockErr.Error())
			ev["obs"] = map[string]any{"now": -1}
			em.Emit(ev)
			return
		}
		if o.ok {
			ev["res"] = "ok"
		} else {
			ev["cs"], ev["code"], ev["log"] = o.cs, o.code, o.log
		}
		ev["obs"] = w.observe()
		em.Emit(ev)
	}
}

func firstLine(s string) string {
	if i := strings.IndexByte(s, '\n'); i >= 0 {
		s = s[:i]
	}
	if len(s) > 160 {
		s = s[:160]
	}
	return s
}
