//go:build verif

// Driver for specs/EvmAttest.tla (property C07): executes TLC-generated histories against the real
// evm / consensus keepers (E1 environment) and records the projection of the real stores after every
// step.  The driver contains no expectations.  What it adds on its own is an independent reference
// encoder of the compass (bridge contract) call data, built from the message as it is stored in the
// consensus queue and from the ABI that ships with the repository (read from VERIF_REPO at run time):
// every transaction it offers as evidence is a really signed ethtypes.Transaction whose data is that
// encoding, possibly corrupted in one or two delivered fields.
package evmattest

import (
	"bytes"
	"context"
	"crypto/sha256"
	"encoding/hex"
	"encoding/json"
	"fmt"
	"math/big"
	"os"
	"path/filepath"
	"sort"
	"strings"
	"testing"
	"time"

	"cosmossdk.io/log"
	"cosmossdk.io/math"
	"cosmossdk.io/store/prefix"
	"cosmossdk.io/store/rootmulti"
	storetypes "cosmossdk.io/store/types"
	codectypes "github.com/cosmos/cosmos-sdk/codec/types"
	sdk "github.com/cosmos/cosmos-sdk/types"
	stakingkeeper "github.com/cosmos/cosmos-sdk/x/staking/keeper"
	stakingtypes "github.com/cosmos/cosmos-sdk/x/staking/types"
	"github.com/ethereum/go-ethereum/accounts/abi"
	"github.com/ethereum/go-ethereum/common"
	ethtypes "github.com/ethereum/go-ethereum/core/types"
	"github.com/ethereum/go-ethereum/crypto"
	keeperutil "github.com/palomachain/paloma/v2/util/keeper"
	"github.com/palomachain/paloma/v2/x/consensus"
	consensuskeeper "github.com/palomachain/paloma/v2/x/consensus/keeper"
	cqueue "github.com/palomachain/paloma/v2/x/consensus/keeper/consensus"
	ct "github.com/palomachain/paloma/v2/x/consensus/types"
	et "github.com/palomachain/paloma/v2/x/evm/types"
	metrixtypes "github.com/palomachain/paloma/v2/x/metrix/types"
	valsettypes "github.com/palomachain/paloma/v2/x/valset/types"
	"verifharness/drv"
	"verifharness/env"
)

const (
	chain         = "eth-a"
	chainID       = 100 // e1 registers chains with id 100+i
	queueName     = "evm/" + chain + "/" + et.ConsensusTurnstoneMessage
	sigPrefix     = "\x19Ethereum Signed Message:\n32"
	gasEstimate   = 21000
	compassAddr1  = "0x00000000000000000000000000000000000c0de1"
	feeMgrAddr    = "0x00000000000000000000000000000000000fee00"
	deployerAddr  = "0x0000000000000000000000000000000000de9101"
	logicContract = "0x00000000000000000000000000000000000a11ce"
)

func repoDir() string {
	if d := os.Getenv("VERIF_REPO"); d != "" {
		return d
	}
	return "/repo"
}

// ---------------------------------------------------------------------------------------------
// capturing logger: the module's EndBlock only logs the error of CheckAndProcessAttestedMessages
type capLogger struct{ errs *[]string }

func (l capLogger) Info(string, ...any)  {}
func (l capLogger) Warn(string, ...any)  {}
func (l capLogger) Debug(string, ...any) {}
func (l capLogger) Error(msg string, kv ...any) {
	if msg != "error while attesting to messages" {
		return
	}
	for i := 0; i+1 < len(kv); i += 2 {
		if k, ok := kv[i].(string); ok && k == "err" {
			*l.errs = append(*l.errs, fmt.Sprint(kv[i+1]))
		}
	}
}
func (l capLogger) With(...any) log.Logger { return l }
func (l capLogger) Impl() any              { return nil }

// listener registered next to the metrix keeper: which messages were routed to an attester
type routed struct {
	ID   uint64
	Succ bool
}
type recorder struct{ calls []routed }

func (r *recorder) OnConsensusMessageAttested(_ context.Context, e metrixtypes.MessageAttestedEvent) {
	r.calls = append(r.calls, routed{e.MessageID, e.WasRelayedSuccessfully})
}

// ---------------------------------------------------------------------------------------------
type world struct {
	e        *env.E1
	abi      abi.ABI
	abiJSON  string
	bytecode []byte
	evmKey   storetypes.StoreKey
	cmsg     ct.MsgServer
	mod      consensus.AppModule
	rec      *recorder
	s1, s2   uint64 // snapshot ids: s1 live on the chain, s2 current
	sc1, sc2 uint64 // compass contract ids: sc1 active, sc2 saved
	userVal  string
	userID   uint64
	base     [4]sdk.Context // prepared worlds: 0 = plain, 1 = compass sc2 uploaded and hand-over pending, 2 = snapshot s2 live and re-published once
	idBase   [4]uint64      // real message id = idBase + model id
	reg      [4]*registry
	prepErr  [4]string // why a prepared world is not available (histories that need it are reported as skipped)
}

// registry gives small integers to data / tx hashes / evidence identities
type registry struct {
	data  map[string]int
	hash  map[string]int
	calls map[string]callData // (of, k, corr) -> call data: a remote transaction never changes
}

type callData struct {
	data   []byte
	create bool
}

func newRegistry() *registry {
	return &registry{data: map[string]int{}, hash: map[string]int{}, calls: map[string]callData{}}
}

func (g *registry) clone() *registry {
	n := newRegistry()
	for k, v := range g.data {
		n.data[k] = v
	}
	for k, v := range g.hash {
		n.hash[k] = v
	}
	for k, v := range g.calls {
		n.calls[k] = v
	}
	return n
}

// usedHashes: every transaction built while a world was prepared was accepted there (the preparation panics otherwise)
func (g *registry) usedHashes() []int {
	out := []int{}
	for _, v := range g.hash {
		out = append(out, v)
	}
	sort.Ints(out)
	return out
}

func (g *registry) did(b []byte) int {
	k := string(b)
	if v, ok := g.data[k]; ok {
		return v
	}
	g.data[k] = len(g.data) + 1
	return g.data[k]
}

func (g *registry) hid(h common.Hash) int {
	k := string(h.Bytes())
	if v, ok := g.hash[k]; ok {
		return v
	}
	g.hash[k] = len(g.hash) + 1
	return g.hash[k]
}

func must(err error) {
	if err != nil {
		panic(err)
	}
}

func newWorld() *world {
	e := env.NewE1(env.E1Options{Seed: drv.Seed(), Chains: []string{chain}, Powers: []int64{20, 10, 10, 10}, NoActive: true})
	w := &world{e: e, rec: &recorder{}}
	abiBytes, err := os.ReadFile(filepath.Join(repoDir(), "x/evm/keeper/testdata/sample-abi.json"))
	must(err)
	bc, err := os.ReadFile(filepath.Join(repoDir(), "x/evm/keeper/testdata/sample-bytecode.out"))
	must(err)
	w.abiJSON = string(abiBytes)
	w.abi, err = abi.JSON(strings.NewReader(w.abiJSON))
	must(err)
	w.bytecode = common.FromHex(strings.TrimSpace(string(bc)))
	rs, ok := e.Ctx.MultiStore().(*rootmulti.Store)
	if !ok {
		panic("root multistore expected")
	}
	w.evmKey = rs.StoreKeysByName()[et.StoreKey]
	// wiring the app does and e1 leaves out (app.go: EvmKeeper.Skyway, attested listener)
	e.Evm.Skyway = e.Skyway
	e.Evm.AddMessageConsensusAttestedListener(e.Metrix)
	e.Evm.AddMessageConsensusAttestedListener(w.rec)
	w.cmsg = consensuskeeper.NewMsgServerImpl(*e.Consensus)
	w.mod = consensus.NewAppModule(e.Cdc, *e.Consensus, e.Account, e.Bank)

	ctx := e.Ctx
	// compass sc1 active on the chain, snapshot s1 live on it
	sc1, err := e.Evm.SaveNewSmartContract(ctx, w.abiJSON, w.bytecode)
	must(err)
	must(e.Evm.SetAsCompassContract(ctx, sc1)) // no fee manager yet: nothing is deployed
	must(e.Evm.ActivateChainReferenceID(ctx, chain, sc1, compassAddr1, []byte("compass-"+chain+"-1")))
	snap, err := e.Valset.GetCurrentSnapshot(ctx)
	must(err)
	w.s1 = snap.Id
	must(e.Valset.SetSnapshotOnChain(ctx, w.s1, chain))
	must(e.Evm.SetFeeManagerAddress(ctx, chain, feeMgrAddr))
	must(e.Evm.SetSmartContractDeployer(ctx, chain, deployerAddr))
	must(e.Treasury.SetCommunityFundFee(ctx, "0.01")) // treasury genesis values
	must(e.Treasury.SetSecurityFee(ctx, "0.01"))
	w.sc1 = sc1.Id
	// snapshot s2: validator 1 gets more stake -> shares 3:1:1:1 in the current snapshot
	v0 := e.Vals[0]
	_, err = stakingkeeper.NewMsgServerImpl(e.Staking).Delegate(ctx, stakingtypes.NewMsgDelegate(v0.Acc.String(), v0.Val.String(),
		sdk.NewCoin(env.BondDenom, sdk.TokensFromConsensusPower(10, sdk.DefaultPowerReduction))))
	must(err)
	_, err = e.Staking.EndBlocker(ctx)
	must(err)
	s2, err := e.Valset.TriggerSnapshotBuild(ctx)
	must(err)
	if s2 == nil {
		panic("second snapshot not built")
	}
	w.s2 = s2.Id
	sc2, err := e.Evm.SaveNewSmartContract(ctx, w.abiJSON, append(append([]byte{}, w.bytecode...), 0x00))
	must(err)
	w.sc2 = sc2.Id
	// a user contract ready to be deployed
	w.userVal = e.Vals[1].Val.String()
	w.userID, err = e.Evm.SaveUserSmartContract(ctx, w.userVal, &et.UserSmartContract{Title: "verif", AbiJson: "[]", Bytecode: "0x6001600255", ConstructorInput: "0x01"})
	must(err)
	if msgs, _ := e.Consensus.GetMessagesFromQueue(ctx, queueName, 0); len(msgs) != 0 {
		panic("world 0 queue not empty")
	}

	c0, _ := ctx.CacheContext()
	w.base[0] = c0
	w.reg[0] = newRegistry()
	w.idBase[0] = w.probeNextID(c0) - 1
	w.prepare(1, func() { w.prepareWorld1(ctx, 1, "usc") })
	w.prepare(3, func() { w.prepareWorld1(ctx, 3, "uscn") }) // same, the upload message carried no constructor input
	w.prepare(2, func() { w.prepareWorld2(ctx) })
	return w
}

func (w *world) prepare(i int, f func()) {
	defer func() {
		if r := recover(); r != nil {
			w.prepErr[i] = fmt.Sprint(r)
		}
	}()
	f()
}

// world 1: the new compass really uploaded and attested, hand-over message pending
func (w *world) prepareWorld1(ctx sdk.Context, wi int, kind string) {
	c1, _ := ctx.CacheContext()
	r := w.newRun(c1, newRegistry(), w.idBase[0])
	res, x := r.step(drv.Step{Act: "Enqueue", Args: json.RawMessage(`{"kind":"` + kind + `"}`)})
	if res != "ok" {
		panic(fmt.Sprint("world ", wi, ": enqueue ", kind, " ", res, x))
	}
	up := x["id"].(int) // 1, or 2 when the regular upload message was replaced
	for _, v := range []int{1, 2} {
		a := fmt.Sprintf(`{"v":%d,"m":%d,"t":"tx","of":%d,"k":1,"corr":"none","st":"ok","n":1,"rg":1}`, v, up, up)
		if res, x := r.step(drv.Step{Act: "Evidence", Args: json.RawMessage(a)}); res != "ok" {
			panic(fmt.Sprint("world ", wi, ": evidence ", res, x))
		}
	}
	r.step(drv.Step{Act: "EndBlock", Args: json.RawMessage(`{}`)})
	found := false
	for _, q := range r.observe()["queue"].([]any) {
		if q.(map[string]any)["kind"] == "handover" && q.(map[string]any)["id"] == up+1 {
			found = true
		}
	}
	if !found {
		panic(fmt.Sprint("world ", wi, ": no hand-over message after the compass upload"))
	}
	w.base[wi] = r.ctx
	w.reg[wi] = r.reg
	w.idBase[wi] = w.idBase[0] + uint64(up) // model: the upload message had id 0, the pending hand-over message has id 1
}

// world 2: s2 went live (message 0 of the model) and was published again (message 1); both transactions are used up
func (w *world) prepareWorld2(ctx sdk.Context) {
	c2, _ := ctx.CacheContext()
	r := w.newRun(c2, newRegistry(), w.idBase[0])
	for _, m := range []int{1, 2} {
		if res, _ := r.step(drv.Step{Act: "Enqueue", Args: json.RawMessage(`{"kind":"valset"}`)}); res != "ok" {
			panic("world 2: enqueue valset " + res)
		}
		if res, _ := r.step(drv.Step{Act: "Sign", Args: json.RawMessage(fmt.Sprintf(`{"v":2,"m":%d}`, m))}); res != "ok" {
			panic("world 2: sign " + res)
		}
		for _, v := range []int{1, 2} {
			a := fmt.Sprintf(`{"v":%d,"m":%d,"t":"tx","of":%d,"k":1,"corr":"none","st":"ok","n":1,"rg":1}`, v, m, m)
			if res, x := r.step(drv.Step{Act: "Evidence", Args: json.RawMessage(a)}); res != "ok" {
				panic(fmt.Sprint("world 2: evidence ", res, x))
			}
		}
		r.step(drv.Step{Act: "EndBlock", Args: json.RawMessage(`{}`)})
	}
	if o := r.observe(); o["live2"] != 2 {
		panic(fmt.Sprintf("world 2: snapshot not live twice: %v", o))
	}
	w.base[2] = r.ctx
	w.reg[2] = r.reg
	w.idBase[2] = w.idBase[0] + 1
}

// probeNextID enqueues a logic call on a throw-away branch to learn the next message id
func (w *world) probeNextID(ctx sdk.Context) uint64 {
	c, _ := ctx.CacheContext()
	id, err := w.enqueueSLC(c)
	must(err)
	return id
}

func (w *world) enqueueSLC(ctx sdk.Context) (uint64, error) {
	ci, err := w.e.Evm.GetChainInfo(ctx, chain)
	if err != nil {
		return 0, err
	}
	return w.e.Evm.AddSmartContractExecutionToConsensus(ctx, chain, string(ci.SmartContractUniqueID), &et.SubmitLogicCall{
		HexContractAddress: logicContract, Abi: []byte("[]"), Payload: []byte{0xde, 0xad, 0xbe, 0xef, 0x01},
		Deadline: ctx.BlockTime().Add(10 * time.Minute).Unix(), SenderAddress: w.e.Vals[2].Acc.Bytes(),
	})
}

// ---------------------------------------------------------------------------------------------
type run struct {
	w       *world
	ctx     sdk.Context
	reg     *registry
	idBase  uint64
	height  int64
	height0 int64
	kinds   map[uint64]string // kind of every message ever seen (real id)
	encs    map[string][]byte // reference encodings ever computed: "id/k"
}

func (w *world) newRun(ctx sdk.Context, reg *registry, idBase uint64) *run {
	r := &run{w: w, ctx: ctx, reg: reg, idBase: idBase, kinds: map[uint64]string{}, encs: map[string][]byte{}}
	r.height = ctx.BlockHeight()
	r.height0 = r.height
	return r
}

type args struct {
	W    int    `json:"w"`
	D    int    `json:"d"`
	Kind string `json:"kind"`
	V    int    `json:"v"`
	M    int    `json:"m"`
	T    string `json:"t"`
	Of   int    `json:"of"`
	K    int    `json:"k"`
	Corr string `json:"corr"`
	St   string `json:"st"`
	N    int    `json:"n"`
	Rg   int    `json:"rg"`
}

func meta(a sdk.AccAddress) valsettypes.MsgMetadata {
	return valsettypes.MsgMetadata{Creator: a.String(), Signers: []string{a.String()}}
}

func (r *run) msgs() []ct.QueuedSignedMessageI {
	ms, err := r.w.e.Consensus.GetMessagesFromQueue(r.ctx, queueName, 0)
	must(err)
	return ms
}

func (r *run) find(real uint64) ct.QueuedSignedMessageI {
	for _, m := range r.msgs() {
		if m.GetId() == real {
			return m
		}
	}
	return nil
}

func (r *run) evmMsg(m ct.QueuedSignedMessageI) *et.Message {
	cm, err := m.ConsensusMsg(r.w.e.Cdc)
	must(err)
	return cm.(*et.Message)
}

func (r *run) valIdxByValStr(a string) int {
	for i, v := range r.w.e.Vals {
		if v.Val.String() == a {
			return i + 1
		}
	}
	return 0
}

func isUsc(kind string) bool { return kind == "usc" || kind == "uscn" }

func kindOf(m *et.Message) string {
	switch m.GetAction().(type) {
	case *et.Message_SubmitLogicCall:
		return "slc"
	case *et.Message_UpdateValset:
		return "valset"
	case *et.Message_UploadSmartContract:
		if len(m.GetUploadSmartContract().GetConstructorInput()) == 0 {
			return "uscn" // upload message without constructor input: the call data is the bytecode alone
		}
		return "usc"
	case *et.Message_CompassHandover:
		return "handover"
	case *et.Message_UploadUserSmartContract:
		return "uusc"
	}
	return "other"
}

func (r *run) valIdxByVal(a sdk.ValAddress) int {
	for i, v := range r.w.e.Vals {
		if v.Val.Equals(a) {
			return i + 1
		}
	}
	return 0
}

// estimates: every validator estimates every message that waits for one, then the first half of the
// module's end-blocker elects the estimate (and sets the fees); relayers never relay before that.
func (r *run) estimatePhase() {
	e := r.w.e
	need := false
	for _, m := range r.msgs() {
		if !m.GetRequireGasEstimation() || m.GetGasEstimate() > 0 || len(m.GetGasEstimates()) > 0 {
			continue
		}
		need = true
		for _, v := range e.Vals {
			_, err := r.w.cmsg.AddMessageEstimates(r.ctx, &ct.MsgAddMessageGasEstimates{Metadata: meta(v.Acc),
				Estimates: []*ct.MsgAddMessageGasEstimates_GasEstimate{{MsgId: m.GetId(), QueueTypeName: queueName, Value: gasEstimate, EstimatedByAddress: v.EthAddr.Hex()}}})
			must(err)
		}
	}
	if need {
		must(e.Consensus.CheckAndProcessEstimatedMessages(r.ctx))
	}
}

// ---------------------------------------------------------------------------------------------
// reference encoder
type sigT struct{ V, R, S *big.Int }
type valsetT struct {
	ValsetId   *big.Int
	Validators []common.Address
	Powers     []*big.Int
}
type consensusT struct {
	Valset     valsetT
	Signatures []sigT
}
type callArgsT struct {
	LogicContractAddress common.Address
	Payload              []byte
}
type feeArgsT struct {
	RelayerFee            *big.Int
	CommunityFee          *big.Int
	SecurityFee           *big.Int
	FeePayerPalomaAddress [32]byte
}

func toValsetT(v *et.Valset) valsetT {
	o := valsetT{ValsetId: new(big.Int).SetUint64(v.ValsetID)}
	for _, a := range v.Validators {
		o.Validators = append(o.Validators, common.HexToAddress(a))
	}
	for _, p := range v.Powers {
		o.Powers = append(o.Powers, new(big.Int).SetUint64(p))
	}
	return o
}

func pad32(b []byte) (o [32]byte) {
	copy(o[32-len(b):], b)
	return o
}

func has(corr, f string) bool {
	for _, c := range strings.Split(corr, "+") {
		if c == f {
			return true
		}
	}
	return false
}

func bump(x *big.Int) *big.Int { return new(big.Int).Add(x, big.NewInt(1)) }

func flipAddr(a common.Address) common.Address { a[19] ^= 1; return a }

func flipBytes(b []byte) []byte {
	o := append([]byte{}, b...)
	if len(o) == 0 {
		return []byte{1}
	}
	o[len(o)-1] ^= 1
	return o
}

// refEncode packs the call data that delivers message m with the first k collected signatures, as the
// bridge contract's ABI defines it; `corr` names the delivered fields to falsify ("a+b" = two fields).
func (r *run) refEncode(m ct.QueuedSignedMessageI, k int, corr string) ([]byte, error) {
	w := r.w
	msg := r.evmMsg(m)
	relayer := common.HexToAddress(msg.AssigneeRemoteAddress)
	if has(corr, "relayer") {
		relayer = flipAddr(relayer)
	}
	var data []byte
	if up, ok := msg.GetAction().(*et.Message_UploadSmartContract); ok {
		// contract creation: bytecode followed by the constructor arguments
		u := up.UploadSmartContract
		bc, ci := u.Bytecode, u.ConstructorInput
		if has(corr, "bytecode") {
			bc = flipBytes(bc)
		}
		if has(corr, "ctor") && len(ci) >= 32 {
			ci = append([]byte{}, ci...)
			ci[31] ^= 1 // last byte of the compass id
		}
		data = append(append([]byte{}, bc...), ci...)
		if has(corr, "ctorargs") {
			// constructor arguments of the relayer's choosing behind the (complete) valid data
			var id [32]byte
			copy(id[:], "relayer-chosen-compass-id")
			extra, err := w.abi.Pack("", id, big.NewInt(0), big.NewInt(0), valsetT{ValsetId: big.NewInt(1), Validators: []common.Address{common.HexToAddress(feeMgrAddr)}, Powers: []*big.Int{big.NewInt(1 << 32)}}, common.HexToAddress(feeMgrAddr))
			if err != nil {
				return nil, err
			}
			data = append(data, extra...)
		}
	} else {
		live, err := w.e.Valset.GetLatestSnapshotOnChain(r.ctx, chain)
		if err != nil {
			return nil, err
		}
		vr, err := w.e.Evm.GetValsetByID(r.ctx, &et.QueryGetValsetByIDRequest{ValsetID: live.Id, ChainReferenceID: chain})
		if err != nil {
			return nil, err
		}
		cons := consensusT{Valset: toValsetT(vr.Valset)}
		sd := m.GetSignData()
		if k > len(sd) || k < 0 {
			return nil, fmt.Errorf("prefix %d of %d signatures", k, len(sd))
		}
		byAddr := map[common.Address][]byte{}
		for _, s := range sd[:k] {
			byAddr[common.HexToAddress(s.ExternalAccountAddress)] = s.Signature
		}
		first := true
		for _, a := range cons.Valset.Validators {
			s, ok := byAddr[a]
			if !ok {
				cons.Signatures = append(cons.Signatures, sigT{big.NewInt(0), big.NewInt(0), big.NewInt(0)})
				continue
			}
			g := sigT{big.NewInt(int64(s[64]) + 27), new(big.Int).SetBytes(s[:32]), new(big.Int).SetBytes(s[32:64])}
			if first && has(corr, "sig") {
				g.S = bump(g.S)
			}
			first = false
			cons.Signatures = append(cons.Signatures, g)
		}
		if has(corr, "valset") {
			cons.Valset.ValsetId = bump(cons.Valset.ValsetId)
		}
		if has(corr, "power") {
			cons.Valset.Powers[0] = bump(cons.Valset.Powers[0])
		}
		gas := new(big.Int).SetUint64(m.GetGasEstimate())
		if has(corr, "gas") {
			gas = bump(gas)
		}
		mid := new(big.Int).SetUint64(m.GetId())
		if has(corr, "msgid") {
			mid = bump(mid)
		}
		fee := func(f *et.Fees, sender []byte) (feeArgsT, error) {
			if f == nil {
				// no elected fees yet: the defaults relayers (and the signing bytes, and VerifyAgainstTX) use
				f = &et.Fees{RelayerFee: 100_000, CommunityFee: 100_000, SecurityFee: 100_000}
			}
			o := feeArgsT{new(big.Int).SetUint64(f.RelayerFee), new(big.Int).SetUint64(f.CommunityFee), new(big.Int).SetUint64(f.SecurityFee), pad32(sender)}
			if has(corr, "fee") {
				o.RelayerFee = bump(o.RelayerFee)
			}
			if has(corr, "cfee") {
				o.CommunityFee = bump(o.CommunityFee)
			}
			if has(corr, "payer") {
				o.FeePayerPalomaAddress[31] ^= 1
			}
			return o, nil
		}
		method := ""
		var a []any
		switch act := msg.GetAction().(type) {
		case *et.Message_SubmitLogicCall:
			c := act.SubmitLogicCall
			fa, err := fee(c.Fees, c.SenderAddress)
			if err != nil {
				return nil, err
			}
			ca := callArgsT{common.HexToAddress(c.HexContractAddress), c.Payload}
			if has(corr, "contract") {
				ca.LogicContractAddress = flipAddr(ca.LogicContractAddress)
			}
			if has(corr, "payload") {
				ca.Payload = flipBytes(ca.Payload)
			}
			dl := big.NewInt(c.Deadline)
			if has(corr, "deadline") {
				dl = bump(dl)
			}
			method, a = "submit_logic_call", []any{cons, ca, fa, mid, dl, relayer}
		case *et.Message_UpdateValset:
			nv := toValsetT(act.UpdateValset.Valset)
			if has(corr, "newvalset") {
				nv.ValsetId = bump(nv.ValsetId)
			}
			if has(corr, "newpower") {
				nv.Powers[len(nv.Powers)-1] = bump(nv.Powers[len(nv.Powers)-1])
			}
			method, a = "update_valset", []any{cons, nv, relayer, gas}
		case *et.Message_CompassHandover:
			c := act.CompassHandover
			fw := []callArgsT{}
			for i, f := range c.ForwardCallArgs {
				x := callArgsT{common.HexToAddress(f.HexContractAddress), f.Payload}
				if i == 0 && has(corr, "contract") {
					x.LogicContractAddress = flipAddr(x.LogicContractAddress)
				}
				if i == 0 && has(corr, "payload") {
					x.Payload = flipBytes(x.Payload)
				}
				fw = append(fw, x)
			}
			dl := big.NewInt(c.Deadline)
			if has(corr, "deadline") {
				dl = bump(dl)
			}
			method, a = "compass_update_batch", []any{cons, fw, dl, gas, relayer}
		case *et.Message_UploadUserSmartContract:
			c := act.UploadUserSmartContract
			fa, err := fee(c.Fees, c.SenderAddress)
			if err != nil {
				return nil, err
			}
			dep := common.HexToAddress(c.DeployerAddress)
			if has(corr, "contract") {
				dep = flipAddr(dep)
			}
			bc := c.Bytecode
			if has(corr, "payload") {
				bc = flipBytes(bc)
			}
			dl := big.NewInt(c.Deadline)
			if has(corr, "deadline") {
				dl = bump(dl)
			}
			method, a = "deploy_contract", []any{cons, dep, bc, fa, mid, dl, relayer}
		default:
			return nil, fmt.Errorf("unknown action")
		}
		var err2 error
		data, err2 = w.abi.Pack(method, a...)
		if err2 != nil {
			return nil, err2
		}
	}
	// strict extensions of the encoding: trailing word / single trailing byte, leading word / single leading byte
	if has(corr, "append") {
		data = append(data, make([]byte, 32)...)
	}
	if has(corr, "append1") {
		data = append(data, 0x01)
	}
	if has(corr, "prepend") {
		data = append(make([]byte, 32), data...)
	}
	if has(corr, "prepend1") {
		data = append([]byte{0x01}, data...)
	}
	if has(corr, "trunc") {
		data = data[:len(data)-32]
	}
	if has(corr, "selector") {
		data = append(append([]byte{}, w.abi.Methods["submit_batch"].ID...), data[4:]...)
	}
	return data, nil
}

// buildTx returns the remote transaction (of, k, corr, n).  The call data of (of, k, corr) is fixed when it is first
// built (a remote transaction never changes); n is the nonce, i.e. another transaction with the same data.
func (r *run) buildTx(a args) (*ethtypes.Transaction, error) {
	real := r.idBase + uint64(a.Of)
	key := fmt.Sprintf("%d/%d/%s", real, a.K, a.Corr)
	c, ok := r.reg.calls[key]
	if !ok {
		m := r.find(real)
		if m == nil {
			return nil, fmt.Errorf("message %d not in the queue and its transaction was never built", a.Of)
		}
		data, err := r.refEncode(m, a.K, a.Corr)
		if err != nil {
			return nil, err
		}
		c = callData{data: data, create: isUsc(kindOf(r.evmMsg(m)))}
		r.reg.calls[key] = c
	}
	to := common.HexToAddress(compassAddr1)
	inner := &ethtypes.DynamicFeeTx{ChainID: big.NewInt(chainID), Nonce: uint64(a.N), GasTipCap: big.NewInt(1), GasFeeCap: big.NewInt(100), Gas: 1_000_000, To: &to, Data: c.data}
	if c.create {
		inner.To = nil
	}
	// one fixed key signs every remote transaction: a transaction is identified by (call data, nonce)
	return ethtypes.SignNewTx(r.w.e.Vals[0].EthKey, ethtypes.NewLondonSigner(big.NewInt(chainID)), inner)
}

var deployedTopic = crypto.Keccak256Hash([]byte("ContractDeployed(address,address,uint256)"))

// receipt serialises the receipt a validator reports for tx.  Its components vary independently: the status, and
// (rg) the rest of the receipt, here the cumulative gas used.  The logs are the same in every variant, so that two
// receipts of one transaction can differ in the status ALONE.
func (r *run) receipt(tx *ethtypes.Transaction, ok bool, rg int) []byte {
	data, err := r.w.abi.Events["ContractDeployed"].Inputs.Pack(common.HexToAddress("0x00000000000000000000000000000000000c411d"), common.HexToAddress(deployerAddr), big.NewInt(7))
	must(err)
	rc := &ethtypes.Receipt{Type: tx.Type(), Status: ethtypes.ReceiptStatusFailed, CumulativeGasUsed: uint64(21000 + rg - 1),
		Logs: []*ethtypes.Log{{Address: common.HexToAddress(compassAddr1), Topics: []common.Hash{deployedTopic}, Data: data}}}
	if ok {
		rc.Status = ethtypes.ReceiptStatusSuccessful
	}
	b, err := rc.MarshalBinary()
	must(err)
	return b
}

// ---------------------------------------------------------------------------------------------
func (r *run) rel(id uint64) int { return int(int64(id) - int64(r.idBase)) }

func (r *run) observe() map[string]any {
	e := r.w.e
	ctx := r.ctx
	o := map[string]any{}
	q := []any{}
	for _, m := range r.msgs() {
		msg := r.evmMsg(m)
		kind := kindOf(msg)
		r.kinds[m.GetId()] = kind
		sigs := []int{}
		for _, s := range m.GetSignData() {
			sigs = append(sigs, r.valIdxByVal(s.ValAddress))
		}
		evs := []any{}
		for _, ev := range m.GetEvidence() {
			x := r.evObs(ev)
			x["ord"] = len(evs) + 1 // position in the stored list = order of first submission
			evs = append(evs, x)
		}
		sort.Slice(evs, func(i, j int) bool { return evs[i].(map[string]any)["v"].(int) < evs[j].(map[string]any)["v"].(int) })
		enc := []int{}
		n := len(m.GetSignData())
		if isUsc(kind) {
			n = 1
		}
		for k := 1; k <= n; k++ {
			b, err := r.refEncode(m, k, "none")
			if err != nil {
				break
			}
			enc = append(enc, r.reg.did(b))
		}
		retries := 0
		switch a := msg.GetAction().(type) {
		case *et.Message_SubmitLogicCall:
			retries = int(a.SubmitLogicCall.Retries)
		case *et.Message_UploadSmartContract:
			retries = int(a.UploadSmartContract.Retries)
		case *et.Message_UploadUserSmartContract:
			retries = int(a.UploadUserSmartContract.Retries)
		}
		gas := 0
		if m.GetGasEstimate() > 0 {
			gas = 1
		}
		q = append(q, map[string]any{"id": r.rel(m.GetId()), "kind": kind, "sigs": sigs, "ev": evs, "enc": enc, "retries": retries,
			"rel": r.valIdxByValStr(msg.Assignee), "pad": m.GetPublicAccessData() != nil, "errd": m.GetErrorData() != nil, "gas": gas})
	}
	o["queue"] = q
	count := func(id uint64) int {
		s, err := e.Valset.FindSnapshotByID(ctx, id)
		must(err)
		n := 0
		for _, c := range s.Chains {
			if c == chain {
				n++
			}
		}
		return n
	}
	o["live1"], o["live2"] = count(r.w.s1), count(r.w.s2)
	ci, err := e.Evm.GetChainInfo(ctx, chain)
	must(err)
	o["active"] = int(ci.ActiveSmartContractID)
	addr := 0
	if !strings.EqualFold(ci.SmartContractAddr, compassAddr1) {
		addr = 1
	}
	o["addr"] = addr
	deps, err := e.Evm.AllSmartContractsDeployments(ctx)
	must(err)
	dl := []any{}
	for _, d := range deps {
		st := "other"
		switch d.Status {
		case et.SmartContractDeployment_IN_FLIGHT:
			st = "inflight"
		case et.SmartContractDeployment_WAITING_FOR_ERC20_OWNERSHIP_TRANSFER:
			st = "waiting"
		}
		dl = append(dl, map[string]any{"sc": int(d.SmartContractID), "status": st, "hasaddr": d.NewSmartContractAddress != ""})
	}
	o["deploy"] = dl
	ul := []any{}
	ucs, err := e.Evm.UserSmartContracts(ctx, r.w.userVal)
	must(err)
	for _, c := range ucs {
		for _, d := range c.Deployments {
			ul = append(ul, map[string]any{"status": strings.ToLower(d.Status.String()), "hasaddr": d.Address != ""})
		}
	}
	o["user"] = ul
	// processed transactions, read straight from the store of the evm module
	ps := []int{}
	st := prefix.NewStore(ctx.KVStore(r.w.evmKey), []byte("tx-processed"))
	it := st.Iterator(nil, nil)
	for ; it.Valid(); it.Next() {
		ps = append(ps, r.reg.hid(common.BytesToHash(it.Key())))
	}
	it.Close()
	sort.Ints(ps)
	o["processed"] = ps
	o["height"] = int(r.height - r.height0)
	succ, recs := 0, 0
	for _, v := range e.Vals {
		h, err := e.Metrix.GetValidatorHistory(ctx, v.Val)
		if err != nil || h == nil {
			continue
		}
		for _, rec := range h.Records {
			recs++
			if rec.Success {
				succ++
			}
		}
	}
	o["succ"], o["recs"] = succ, recs
	return o
}

// evObs decodes a stored piece of evidence (never the driver's own book-keeping)
func (r *run) evObs(ev *ct.Evidence) map[string]any {
	o := map[string]any{"v": r.valIdxByVal(ev.ValAddress), "t": "other", "did": 0, "hid": 0, "st": "", "rg": 0, "eid": ""}
	// identity of the evidence = the bytes the validator submitted (never the code's own BytesToHash: which
	// evidence counts as "identical" is part of what is being checked)
	if ev.Proof != nil {
		s := sha256.Sum256(append([]byte(ev.Proof.TypeUrl+"|"), ev.Proof.Value...))
		o["eid"] = hex.EncodeToString(s[:8])
	}
	var h et.Hashable
	if err := r.w.e.Cdc.UnpackAny(ev.Proof, &h); err != nil {
		return o
	}
	switch p := h.(type) {
	case *et.TxExecutedProof:
		o["t"] = "tx"
		// decoded with go-ethereum directly, never with the accessors of the code under test
		tx := new(ethtypes.Transaction)
		if err := tx.UnmarshalBinary(p.SerializedTX); err == nil {
			o["did"] = r.reg.did(tx.Data())
			o["hid"] = r.reg.hid(tx.Hash())
		}
		rc := new(ethtypes.Receipt)
		switch {
		case len(p.SerializedReceipt) == 0:
			o["st"] = "absent"
		case rc.UnmarshalBinary(p.SerializedReceipt) != nil:
			o["st"] = "bad"
		default:
			o["st"] = "fail"
			if rc.Status == ethtypes.ReceiptStatusSuccessful {
				o["st"] = "ok"
			}
			o["rg"] = int(rc.CumulativeGasUsed) - 21000 + 1
		}
	case *et.SmartContractExecutionErrorProof:
		o["t"] = "err"
	}
	return o
}

func errClass(s string) string {
	switch {
	case s == "":
		return ""
	case strings.Contains(s, et.ErrEthTxNotVerified.Error()):
		return "notverified"
	case strings.Contains(s, et.ErrEthTxFailed.Error()):
		return "txfailed"
	case strings.Contains(s, "already processed"):
		return "processed"
	}
	return "other"
}

func (r *run) step(s drv.Step) (res string, extra map[string]any) {
	var a args
	if err := json.Unmarshal(s.Args, &a); err != nil {
		panic(err)
	}
	e := r.w.e
	extra = map[string]any{"err": ""}
	switch s.Act {
	case "Enqueue":
		before := map[uint64]bool{}
		for _, m := range r.msgs() {
			before[m.GetId()] = true
		}
		err, _ := drv.Recover(func() error {
			switch a.Kind {
			case "slc":
				_, err := r.w.enqueueSLC(r.ctx)
				return err
			case "valset":
				s2, err := e.Valset.FindSnapshotByID(r.ctx, r.w.s2)
				if err != nil {
					return err
				}
				return e.Evm.PublishSnapshotToAllChains(r.ctx, s2, true)
			case "usc":
				sc, err := e.Evm.QueryGetSmartContract(r.ctx, &et.QueryGetSmartContractRequest{SmartContractID: r.w.sc2})
				if err != nil {
					return err
				}
				return e.Evm.SetAsCompassContract(r.ctx, &et.SmartContract{Id: sc.ID, AbiJSON: sc.Abi, Bytecode: sc.Bytecode})
			case "uscn":
				// the regular way creates the deployment record and an upload message with constructor input; that
				// message is replaced (DeleteJob + AddUploadSmartContractToConsensus, the call retries use) by one without
				sc, err := e.Evm.QueryGetSmartContract(r.ctx, &et.QueryGetSmartContractRequest{SmartContractID: r.w.sc2})
				if err != nil {
					return err
				}
				if err := e.Evm.SetAsCompassContract(r.ctx, &et.SmartContract{Id: sc.ID, AbiJSON: sc.Abi, Bytecode: sc.Bytecode}); err != nil {
					return err
				}
				for _, m := range r.msgs() {
					if before[m.GetId()] {
						continue
					}
					up := r.evmMsg(m).GetUploadSmartContract()
					if up == nil {
						continue
					}
					if err := e.Consensus.DeleteJob(r.ctx, queueName, m.GetId()); err != nil {
						return err
					}
					before[m.GetId()] = true
					_, err := e.Evm.AddUploadSmartContractToConsensus(r.ctx, chain, &et.UploadSmartContract{Id: up.Id, Bytecode: up.Bytecode, Abi: up.Abi})
					return err
				}
				return nil
			case "uusc":
				_, err := e.Evm.CreateUserSmartContractDeployment(r.ctx, r.w.userVal, r.w.userID, chain)
				return err
			}
			return fmt.Errorf("unknown kind %s", a.Kind)
		})
		if err != nil {
			extra["err"] = err.Error()
		}
		r.estimatePhase()
		id := 0
		for _, m := range r.msgs() {
			if !before[m.GetId()] {
				id = r.rel(m.GetId())
			}
		}
		extra["id"] = id
		res = "noop"
		if id != 0 {
			res = "ok"
		}
	case "Sign":
		v := e.Vals[a.V-1]
		res = "fail"
		m := r.find(r.idBase + uint64(a.M))
		sig := make([]byte, 65)
		if m != nil {
			b, err := m.GetBytesToSign(e.Cdc)
			must(err)
			sig, err = crypto.Sign(crypto.Keccak256(append([]byte(sigPrefix), b...)), v.EthKey)
			must(err)
		}
		err, _ := env.RunMsg(r.ctx, func(ctx sdk.Context) error {
			_, err := r.w.cmsg.AddMessagesSignatures(ctx, &ct.MsgAddMessagesSignatures{Metadata: meta(v.Acc),
				SignedMessages: []*ct.ConsensusMessageSignature{{Id: r.idBase + uint64(a.M), QueueTypeName: queueName, Signature: sig, SignedByAddress: v.EthAddr.Hex()}}})
			return err
		})
		if err == nil {
			res = "ok"
		} else {
			extra["err"] = err.Error()
		}
	case "Evidence":
		v := e.Vals[a.V-1]
		res = "fail"
		extra["did"], extra["hid"] = 0, 0
		var proof *codectypes.Any
		var txhash []byte
		if a.T == "err" {
			p, err := codectypes.NewAnyWithValue(&et.SmartContractExecutionErrorProof{ErrorMessage: "execution reverted"})
			must(err)
			proof = p
		} else {
			tx, err := r.buildTx(a)
			if err != nil {
				extra["err"] = "nobuild: " + err.Error()
				res = "nobuild"
				break
			}
			raw, err := tx.MarshalBinary()
			must(err)
			// the receipt component: ok / failed status, no receipt at all, empty bytes, bytes that are no receipt
			var rcpt []byte
			switch a.St {
			case "ok", "fail":
				rcpt = r.receipt(tx, a.St == "ok", a.Rg)
			case "absent":
				rcpt = nil
			case "empty":
				rcpt = []byte{}
			default:
				rcpt = []byte{0xde, 0xad, 0xbe, 0xef}
			}
			p, err := codectypes.NewAnyWithValue(&et.TxExecutedProof{SerializedTX: raw, SerializedReceipt: rcpt})
			must(err)
			proof = p
			txhash = tx.Hash().Bytes()
			extra["did"], extra["hid"] = r.reg.did(tx.Data()), r.reg.hid(tx.Hash())
		}
		real := r.idBase + uint64(a.M)
		// the relayer publishes where to look (transaction hash + the valset it used) or the error, once
		// (keeper semantics: public access data can still be set after error data, error data only while both are unset)
		if m := r.find(real); m != nil && m.GetPublicAccessData() == nil && (a.T == "tx" || m.GetErrorData() == nil) {
			rel := e.Vals[0]
			for _, x := range e.Vals {
				if x.Val.String() == r.evmMsg(m).Assignee {
					rel = x
				}
			}
			env.RunMsg(r.ctx, func(ctx sdk.Context) error {
				if a.T == "err" {
					_, err := r.w.cmsg.SetErrorData(ctx, &ct.MsgSetErrorData{MessageID: real, QueueTypeName: queueName, Data: []byte("execution reverted"), Metadata: meta(rel.Acc)})
					return err
				}
				live, err := e.Valset.GetLatestSnapshotOnChain(ctx, chain)
				if err != nil {
					return err
				}
				_, err = r.w.cmsg.SetPublicAccessData(ctx, &ct.MsgSetPublicAccessData{MessageID: real, QueueTypeName: queueName, Data: txhash, ValsetID: live.Id, Metadata: meta(rel.Acc)})
				return err
			})
		}
		err, _ := env.RunMsg(r.ctx, func(ctx sdk.Context) error {
			_, err := r.w.cmsg.AddEvidence(ctx, &ct.MsgAddEvidence{Proof: proof, MessageID: real, QueueTypeName: queueName, Metadata: meta(v.Acc)})
			return err
		})
		if err == nil {
			res = "ok"
		} else {
			extra["err"] = err.Error()
		}
	case "Advance":
		// d blocks pass (60 s each, which keeps the relayer pick stable); nothing else happens
		r.height += int64(a.D)
		r.ctx = r.ctx.WithBlockHeight(r.height).WithBlockTime(r.ctx.BlockTime().Add(time.Duration(a.D) * 60 * time.Second))
		res = "adv"
	case "EndBlock":
		errs := []string{}
		r.w.rec.calls = nil
		var pan any
		// The error the attestation pass ends with is read from the keeper on a discarded branch (same two stages,
		// same order as the module's end blocker), not from a log line; the real end blocker then runs on the context.
		func() {
			defer func() { _ = recover() }()
			probe, _ := r.ctx.CacheContext()
			_ = r.w.e.Consensus.CheckAndProcessEstimatedMessages(probe)
			if err := r.w.e.Consensus.CheckAndProcessAttestedMessages(probe); err != nil {
				errs = append(errs, err.Error())
			}
		}()
		// which message the pass stopped at: the same per-message call the keeper's loop makes (ascending ids, stop at
		// the first error), on another discarded branch
		failed := 0
		func() {
			defer func() { _ = recover() }()
			probe, _ := r.ctx.CacheContext()
			_ = r.w.e.Consensus.CheckAndProcessEstimatedMessages(probe)
			opts, err := r.w.e.Evm.SupportedQueues(probe)
			if err != nil {
				return
			}
			for _, opt := range opts {
				if opt.QueueTypeName != queueName {
					continue
				}
				qo := opt.QueueOptions
				qo.Sg, qo.Ider, qo.Cdc = r.w.e.Consensus, keeperutil.NewIDGenerator(r.w.e.Consensus, nil), r.w.e.Cdc
				cq, err := cqueue.NewQueue(qo)
				if err != nil {
					return
				}
				ms, _ := r.w.e.Consensus.GetMessagesFromQueue(probe, queueName, 0)
				for _, m := range ms {
					if err := opt.ProcessMessageForAttestation(probe, cq, m); err != nil {
						failed = r.rel(m.GetId())
						return
					}
				}
			}
		}()
		r.w.rec.calls = nil
		func() {
			defer func() { pan = recover() }()
			must(r.w.mod.EndBlock(r.ctx))
		}()
		rt := []any{}
		for _, c := range r.w.rec.calls {
			rt = append(rt, map[string]any{"id": r.rel(c.ID), "succ": c.Succ})
		}
		extra["routed"] = rt
		extra["fail"] = failed
		raw := strings.Join(errs, " | ")
		if pan != nil {
			raw = fmt.Sprintf("panic: %v", pan)
		}
		extra["err"] = raw
		extra["errc"] = errClass(raw)
		if pan != nil {
			extra["errc"] = "panic"
		}
		r.height++
		r.ctx = r.ctx.WithBlockHeight(r.height).WithBlockTime(r.ctx.BlockTime().Add(60 * time.Second)) // keeps the relayer pick (block time modulo pool size) stable
		r.estimatePhase()
		res = "eb"
		if extra["errc"] != "" {
			res = extra["errc"].(string)
		}
	default:
		panic("unknown action " + s.Act)
	}
	return res, extra
}

func TestDriveEvmAttest(t *testing.T) {
	hs, err := drv.LoadHistories()
	if err != nil {
		t.Fatal(err)
	}
	em, err := drv.NewEmitter()
	if err != nil {
		t.Fatal(err)
	}
	defer em.Close()
	w := newWorld()
	for _, h := range hs {
		wi := 0
		steps := h.Steps
		if len(steps) > 0 && steps[0].Act == "Start" {
			var a args
			must(json.Unmarshal(steps[0].Args, &a))
			wi = a.W
		}
		if w.prepErr[wi] != "" {
			// the world could not be prepared with the code under test: reported, never silently dropped
			c0, _ := w.base[0].CacheContext()
			r0 := w.newRun(c0, w.reg[0].clone(), w.idBase[0])
			em.Emit(map[string]any{"h": h.H, "i": 0, "act": "Init", "obs": r0.observe(), "w": wi, "s1": int(w.s1), "s2": int(w.s2), "shares": w.shares(c0), "used": []int{}, "prep": w.prepErr[wi]})
			continue
		}
		cctx, _ := w.base[wi].CacheContext() // branch of the prepared world, never written back
		r := w.newRun(cctx.WithBlockHeight(w.base[wi].BlockHeight()+1), w.reg[wi].clone(), w.idBase[wi])
		r.height = r.ctx.BlockHeight()
		em.Emit(map[string]any{"h": h.H, "i": 0, "act": "Init", "obs": r.observe(), "w": wi, "s1": int(w.s1), "s2": int(w.s2), "shares": w.shares(r.ctx), "used": r.reg.usedHashes(), "prep": ""})
		for i, s := range steps {
			if s.Act == "Start" {
				em.Emit(map[string]any{"h": h.H, "i": i + 1, "act": "Start", "args": json.RawMessage(s.Args), "res": "start", "err": "", "obs": r.observe()})
				continue
			}
			res, extra := r.step(s)
			ev := map[string]any{"h": h.H, "i": i + 1, "act": s.Act, "args": json.RawMessage(s.Args), "res": res, "obs": r.observe()}
			for k, v := range extra {
				ev[k] = v
			}
			em.Emit(ev)
		}
	}
}

// shares of the current snapshot, in units of its smallest share
func (w *world) shares(ctx sdk.Context) []int {
	s, err := w.e.Valset.GetCurrentSnapshot(ctx)
	must(err)
	min := math.ZeroInt()
	for _, v := range s.Validators {
		if min.IsZero() || v.ShareCount.LT(min) {
			min = v.ShareCount
		}
	}
	out := make([]int, len(w.e.Vals))
	for _, v := range s.Validators {
		for i, x := range w.e.Vals {
			if x.Val.Equals(v.Address) {
				out[i] = int(v.ShareCount.Quo(min).Int64())
				if !v.ShareCount.Mod(min).IsZero() {
					out[i] = -1
				}
			}
		}
	}
	return out
}

var _ = bytes.Equal
