//go:build verif

package evmattest

import (
	"encoding/json"
	"fmt"
	"testing"

	"verifharness/drv"
)

func TestProbe(t *testing.T) {
	w := newWorld()
	fmt.Println("s1", w.s1, "s2", w.s2, "sc", w.sc1, w.sc2, "idbase", w.idBase)
	for wi := 0; wi < 2; wi++ {
		c, _ := w.base[wi].CacheContext()
		r := w.newRun(c.WithBlockHeight(w.base[wi].BlockHeight()+1), w.reg[wi].clone(), w.idBase[wi])
		p := func(act, a string) {
			res, x := r.step(drv.Step{Act: act, Args: json.RawMessage(a)})
			o, _ := json.Marshal(r.observe())
			xx, _ := json.Marshal(x)
			fmt.Println(act, a, "->", res, string(xx), "\n   ", string(o))
		}
		o, _ := json.Marshal(r.observe())
		fmt.Println("world", wi, string(o), w.shares(r.ctx))
		if wi == 0 {
			p("Enqueue", `{"kind":"valset"}`)
			p("Sign", `{"v":2,"m":1}`)
			p("Evidence", `{"v":1,"m":1,"t":"tx","of":1,"k":1,"corr":"none","st":"ok","n":1}`)
			p("Evidence", `{"v":2,"m":1,"t":"tx","of":1,"k":1,"corr":"none","st":"ok","n":1}`)
			p("EndBlock", `{}`)
			p("Enqueue", `{"kind":"valset"}`)
			p("Sign", `{"v":2,"m":2}`)
			p("Evidence", `{"v":1,"m":2,"t":"tx","of":2,"k":1,"corr":"none","st":"ok","n":1}`)
			p("Evidence", `{"v":2,"m":2,"t":"tx","of":2,"k":1,"corr":"none","st":"ok","n":1}`)
			p("EndBlock", `{}`)
			p("Enqueue", `{"kind":"valset"}`)
			p("Sign", `{"v":2,"m":3}`)
			p("Evidence", `{"v":1,"m":3,"t":"tx","of":2,"k":1,"corr":"none","st":"ok","n":1}`)
			p("Evidence", `{"v":2,"m":3,"t":"tx","of":2,"k":1,"corr":"none","st":"ok","n":1}`)
			p("EndBlock", `{}`)
		} else {
			p("Sign", `{"v":4,"m":1}`)
			p("Evidence", `{"v":1,"m":1,"t":"tx","of":1,"k":1,"corr":"none","st":"ok","n":1}`)
			p("Evidence", `{"v":3,"m":1,"t":"tx","of":1,"k":1,"corr":"none","st":"ok","n":1}`)
			p("EndBlock", `{}`)
		}
	}
}
