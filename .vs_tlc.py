import sys,os
sys.path.insert(0,'/verif/checks')
os.makedirs('/verif/.vs_scratch',exist_ok=True)
os.environ['VERIF_SCRATCH_BASE']='/verif/.vs_scratch'
import verifkit as vk
mod,cfg=sys.argv[1],sys.argv[2]
w=int(sys.argv[3]) if len(sys.argv)>3 else 8
to=int(sys.argv[4]) if len(sys.argv)>4 else 170
tail=int(sys.argv[5]) if len(sys.argv)>5 else 60
try:
    r=vk.tlc(mod,cfg,workers=w,timeout=to)
    print(cfg,'generated',r.generated,'distinct',r.distinct,'depth',r.depth,'wall',round(r.wall,1),'violated',r.violated,'errors',r.errors[:3])
    if r.violated or r.errors or 'No error' not in r.out:
        print("\n".join(r.out.splitlines()[-tail:]))
except Exception as e:
    print(cfg,'EXC',e)
