import sys,os,json,collections
sys.path.insert(0,'/verif/checks')
os.makedirs('/verif/.vs_scratch',exist_ok=True)
os.environ['VERIF_SCRATCH_BASE']='/verif/.vs_scratch'
import verifkit as vk
mod,cfg,mode=sys.argv[1],sys.argv[2],sys.argv[3]
num=int(sys.argv[4]) if len(sys.argv)>4 else 100
depth=int(sys.argv[5]) if len(sys.argv)>5 else 12
hs=vk.tlc_generate(mod,cfg,mode=mode,num=num,depth=depth,timeout=300)
c=collections.Counter(s['act'] for h in hs for s in h)
print(len(hs),dict(c))
json.dump(hs,open('/verif/.vs_scratch/%s.json'%cfg,'w'))
